//go:build verif

package c05

import (
	"context"
	"fmt"
	"os"
	"path/filepath"
	"runtime"
	"strconv"
	"strings"
	"sync"
	"sync/atomic"
	"testing"
	"time"

	"go.uber.org/goleak"

	"github.com/form3tech-oss/f1/v2/internal/options"
	"github.com/form3tech-oss/f1/v2/internal/progress"
	"github.com/form3tech-oss/f1/v2/internal/run"
	"github.com/form3tech-oss/f1/v2/internal/verifh/hook"
	"github.com/form3tech-oss/f1/v2/internal/verifh/kit"
	"github.com/form3tech-oss/f1/v2/internal/verifh/runkit"
	f1testing "github.com/form3tech-oss/f1/v2/pkg/f1/testing"
)

// ---------------------------------------------------------------- mode x ending x body pattern

func TestC05Runs(t *testing.T) {
	o := kit.Get()
	defer o.Close()
	r := kit.NewRand(kit.Seed() + 5)
	dir := t.TempDir()
	knownFindingWitness(o, dir)
	// the limit ends the triggering while an earlier iteration is still in flight and never
	// finishes: max-duration and then the completion timeout must still bound the run
	for k, mode := range []string{"constant", "staged", "ramp", "gaussian"} {
		for rep := 0; rep < kit.N(1, 4); rep++ {
			oneRun(o, r, dir, 1000+10*k+rep, mode, "limit-straggler", "first-never-finishes")
		}
	}
	// a config file's later stages start new pools on the run's one pool manager: iterations of
	// the last stage that outlive the triggering must still be waited for
	for rep := 0; rep < kit.N(1, 4); rep++ {
		oneRun(o, r, dir, 2000+rep, "file", "max-duration", "block-until-after-end")
		oneRun(o, r, dir, 2100+rep, "file", "trigger-duration", "sleep-long")
	}
	// a config file whose stages are far longer than the run needs: once the limit is reached (or
	// the run is cancelled, or max-duration elapses, after that) nothing is left to wait for
	for rep := 0; rep < kit.N(3, 12); rep++ {
		fileLongStage(o, r, dir, 3000+rep, rep%3)
	}
	n := kit.N(24, 240)
	for i := 0; i < n; i++ {
		mode := runkit.Modes[i%len(runkit.Modes)]
		ending := []string{"max-duration", "limit", "cancel", "cancel-early", "setup-failure", "trigger-duration"}[(i/len(runkit.Modes))%6]
		body := kit.Pick(r, "instant", "instant", "sleep", "block-until-after-end", "never-finish")
		if ending == "trigger-duration" && mode != "staged" && mode != "file" && mode != "ramp" {
			ending = "max-duration"
		}
		if mode == "file" && body == "never-finish" {
			// covered separately by the known-finding witness (a users stage waits without bound)
			body = "block-until-after-end"
		}
		oneRun(o, r, dir, i, mode, ending, body)
	}
}

// fileLongStage: one or two stages of several seconds, instant bodies and a small limit. variant 0:
// the limit ends the run; 1: max-duration (500 ms) comes after the limit was reached; 2: the run
// is cancelled after the limit was reached. In every variant the run returns as soon as the
// earliest of them has happened and the (instant) iterations are over - not at the stage's end.
func fileLongStage(o *kit.Out, r *kit.Rand, dir string, idx, variant int) {
	var startedN, finishedN atomic.Int64
	t0 := time.Now()
	var lastFinish atomic.Int64
	scenario := func(*f1testing.T) f1testing.RunFn {
		return func(*f1testing.T) {
			startedN.Add(1)
			time.Sleep(time.Millisecond)
			finishedN.Add(1)
			lastFinish.Store(int64(time.Since(t0)))
		}
	}
	limit := r.Range(3, 20)
	maxDur := 6 * time.Second
	if variant == 1 {
		maxDur = 500 * time.Millisecond
	}
	mode := kit.Pick(r, "constant", "constant", "users", "staged")
	stage := "    mode: constant\n    rate: 5/10ms\n"
	switch mode {
	case "users":
		stage = "    mode: users\n    concurrency: 2\n"
	case "staged":
		stage = "    mode: staged\n    stages: 0s:5,4s:5\n    iteration-frequency: 10ms\n"
	}
	y := "scenario: verifscenario\ndefault:\n  jitter: 0\n  distribution: none\n  concurrency: 2\n" +
		"limits:\n  max-duration: " + maxDur.String() + "\n  concurrency: 4\n  max-iterations: " + kit.I(limit) + "\n  ignore-dropped: true\nstages:\n" +
		"  - duration: 4s\n" + stage
	if r.Bool() {
		y += "  - duration: 3s\n    mode: constant\n    rate: 1/10ms\n"
	}
	file := filepath.Join(dir, fmt.Sprintf("c05_long_%d.yaml", idx))
	_ = os.WriteFile(file, []byte(y), 0o600)
	ctx, cancel := context.WithCancel(context.Background())
	defer cancel()
	if variant == 2 {
		go func() { time.Sleep(400 * time.Millisecond); cancel() }()
	}
	before := goleak.IgnoreCurrent()
	out, hung, dump := runkit.DoTimeout(runkit.Config{Mode: "file", FileArg: file, Scenario: scenario, Ctx: ctx, Opts: options.RunOptions{}}, 30*time.Second)
	returnedAt := time.Since(t0)
	if hung {
		o.Fail("run-did-not-return", fmt.Sprintf("Run.Do did not return within 30s (file with a 4s %s stage, limit %d, variant %d): %s", mode, limit, variant, dump[:min(len(dump), 2500)]))
		return
	}
	if out.Err != nil || out.Result == nil {
		o.Fail("run-error", fmt.Sprintf("Run.Do failed (file, long stage): %v", out.Err))
		return
	}
	slow := int64(0)
	// the limit is reached within the first few ticks; everything after that is waiting for nothing
	bound := time.Duration(lastFinish.Load()) + 1200*time.Millisecond
	if startedN.Load() >= limit && returnedAt > bound {
		slow = 1
		o.Fail("run-outlives-its-ending", fmt.Sprintf("config file with a 4s %s stage and max-iterations %d (variant %d: 0 limit only, 1 max-duration 500ms, 2 cancelled at 400ms): the last of the %d iterations finished %s after the start, Run.Do returned after %s",
			mode, limit, variant, startedN.Load(), time.Duration(lastFinish.Load()), returnedAt))
	}
	leaked := int64(0)
	if err := goleak.Find(before); err != nil {
		leaked = 1
	}
	o.Count("mode", "file, long stage")
	o.Count("ending", []string{"limit", "limit then max-duration", "limit then cancel"}[variant])
	o.Case("c05_ok", []string{"0", kit.I(startedN.Load() - finishedN.Load()), "0", kit.I(slow), kit.I(leaked), kit.Str("file-long-stage/" + mode)}, "T", "run", "file", "long-stage", "nt")
}

func oneRun(o *kit.Out, r *kit.Rand, dir string, idx int, mode, ending, body string) {
	maxDur := time.Duration(r.Range(120, 300)) * time.Millisecond
	var startedN, finishedN atomic.Int64
	var lastStart atomic.Int64
	var firstBody atomic.Bool
	preCancelled := false
	release := make(chan struct{})
	var relOnce sync.Once
	t0 := time.Now()
	scenario := func(st *f1testing.T) f1testing.RunFn {
		if ending == "setup-failure" {
			st.FailNow()
		}
		return func(*f1testing.T) {
			startedN.Add(1)
			lastStart.Store(int64(time.Since(t0)))
			switch body {
			case "sleep":
				time.Sleep(3 * time.Millisecond)
			case "sleep-long": // iterations of the last stage of the quick config file outlive the triggering
				if time.Since(t0) > 165*time.Millisecond {
					time.Sleep(150 * time.Millisecond)
				} else {
					time.Sleep(time.Millisecond)
				}
			case "block-until-after-end":
				select {
				case <-release:
				case <-time.After(5 * time.Second):
				}
			case "never-finish":
				select {
				case <-release:
				case <-time.After(20 * time.Second):
				}
			case "first-never-finishes":
				if firstBody.CompareAndSwap(false, true) {
					select {
					case <-release:
					case <-time.After(20 * time.Second):
					}
				}
			}
			finishedN.Add(1)
		}
	}
	flags, yaml := runkit.QuickMode(mode, r.Intn(6))
	opts := options.RunOptions{MaxDuration: maxDur, Concurrency: int(r.Range(1, 6)), IgnoreDropped: true, MaxFailuresRate: 100}
	ctx, cancel := context.WithCancel(context.Background())
	defer cancel()
	wait := 10 * time.Second
	switch ending {
	case "limit":
		opts.MaxIterations = uint64(r.Range(1, 30))
		opts.MaxDuration = 3 * time.Second
	case "cancel":
		opts.MaxDuration = 3 * time.Second
		go func() { time.Sleep(time.Duration(r.Range(1, 150)) * time.Millisecond); cancel() }()
	case "cancel-early":
		opts.MaxDuration = 3 * time.Second
		if r.Bool() {
			cancel()
			preCancelled = true
		} else {
			go func() { time.Sleep(time.Duration(r.Range(0, 300)) * time.Microsecond); cancel() }()
		}
	case "trigger-duration":
		opts.MaxDuration = 3 * time.Second // the trigger's own total duration (120-240ms) ends the run
	case "limit-straggler":
		opts.MaxIterations = uint64(r.Range(2, 12))
		opts.Concurrency = int(r.Range(2, 6))
		opts.MaxDuration = 400 * time.Millisecond
	}
	if body == "never-finish" || body == "first-never-finishes" {
		wait = 150 * time.Millisecond // completion timeout must cut the wait short
	}
	if body == "block-until-after-end" {
		// release the bodies shortly after triggering must have stopped
		go func() { time.Sleep(maxDur + 80*time.Millisecond); relOnce.Do(func() { close(release) }) }()
		if ending != "max-duration" {
			go func() { time.Sleep(250 * time.Millisecond); relOnce.Do(func() { close(release) }) }()
		}
	}
	cfg := runkit.Config{Mode: mode, Flags: flags, Scenario: scenario, Opts: opts, Ctx: ctx, Wait: wait}
	if mode == "file" {
		y := strings.Replace(yaml, "max-duration: 2s", "max-duration: "+opts.MaxDuration.String(), 1)
		y = strings.Replace(y, "max-iterations: 0", "max-iterations: "+strconv.FormatUint(opts.MaxIterations, 10), 1)
		cfg.FileArg = filepath.Join(dir, fmt.Sprintf("c05_%d.yaml", idx))
		_ = os.WriteFile(cfg.FileArg, []byte(y), 0o600)
	}
	before := goleak.IgnoreCurrent()
	out, hung, dump := runkit.DoTimeout(cfg, 30*time.Second)
	returnedAt := time.Since(t0)
	if hung {
		relOnce.Do(func() { close(release) })
		o.Fail("run-did-not-return", fmt.Sprintf("Run.Do did not return within 30s (mode %s, ending %s, bodies %s): %s", mode, ending, body, dump[:min(len(dump), 2500)]))
		return
	}
	if out.Err != nil || out.Result == nil {
		relOnce.Do(func() { close(release) })
		o.Fail("run-error", fmt.Sprintf("Run.Do failed (mode %s, ending %s): %v", mode, ending, out.Err))
		return
	}
	startedAtReturn := startedN.Load()
	finishedAtReturn := finishedN.Load()
	if os.Getenv("VERIF_DEBUG") != "" {
		fmt.Println("DEBUG", mode, ending, body, "returnedAt", returnedAt, "started", startedAtReturn, "finished", finishedAtReturn, "lastStart", time.Duration(lastStart.Load()))
	}
	timedOut := (body == "never-finish" || body == "first-never-finishes") && startedAtReturn > finishedAtReturn
	// nothing starts after the return (unless the completion timeout expired: then iterations may still be running, but none may START either)
	time.Sleep(60 * time.Millisecond)
	lateStarts := startedN.Load() - startedAtReturn
	unfinished := int64(0)
	if !timedOut {
		unfinished = startedAtReturn - finishedAtReturn
	}
	// triggering stopped on time: no body started later than the deadline (+ slack for scheduling)
	late := int64(0)
	if ending == "max-duration" && time.Duration(lastStart.Load()) > opts.MaxDuration+120*time.Millisecond {
		late = 1
	}
	// a run whose context is already cancelled when it begins must not trigger anything (rate triggers
	// check the context before every request; the continuous pool of users mode is not covered here)
	if preCancelled && mode != "users" && mode != "file" && startedN.Load() > 0 {
		late = 1
		o.Count("cancel-early", "iterations started although cancelled before the run began")
	}
	// it returned in time: ending + (timeout or bodies' release) + slack
	slow := int64(0)
	bound := opts.MaxDuration + wait + 2*time.Second
	if returnedAt > bound {
		slow = 1
	}
	relOnce.Do(func() { close(release) })
	leaked := int64(0)
	if !timedOut {
		if err := goleak.Find(before); err != nil {
			leaked = 1
			o.Stat("leak_"+mode+"_"+ending, err.Error()[:min(len(err.Error()), 600)])
		}
	}
	tags := []string{"run", mode, ending, body}
	if body != "instant" || ending != "max-duration" {
		tags = append(tags, "nt")
	}
	o.Count("mode", mode)
	o.Count("ending", ending)
	o.Count("bodies", body)
	// c05_ok late_starts unfinished_at_return started_after_deadline slow leaked
	o.Case("c05_ok", []string{kit.I(lateStarts), kit.I(unfinished), kit.I(late), kit.I(slow), kit.I(leaked), kit.Str(mode + "/" + ending + "/" + body)}, "T", tags...)
}

// ---------------------------------------------------------------- gate script on instrumented sources

// The late-tick history: the progress runner is parked just before it dispatches a due tick;
// main goes on; when main is between the nested read locks of the final rendering the runner is
// released and its SnapshotProgress announces the write lock. With a Stop that waits for the
// runner this history cannot happen (the parked runner delays Stop instead) and the run returns.
func TestC05Gate(t *testing.T) {
	o := kit.Get()
	defer o.Close()
	n := kit.N(1, 4)
	for i := 0; i < n; i++ {
		parked := false
		for attempt := 0; attempt < 3 && !parked; attempt++ {
			parked = gateRun(o, i)
		}
		if !parked {
			o.Unchecked("c05-gate", "in three runs the progress runner never reached the hook before its function: the gate script did not exercise the late-tick history")
		}
	}
}

func gateRun(o *kit.Out, idx int) bool {
	var armed, parked, inFinal, released atomic.Bool
	releaseRunner := make(chan struct{})
	runnerAtLock := make(chan struct{}, 1)
	var points sync.Map
	hook.Set(func(p string) {
		points.Store(p, true)
		switch {
		case strings.HasSuffix(p, ".runFunction"):
			if armed.Load() && parked.CompareAndSwap(false, true) {
				select {
				case <-releaseRunner:
				case <-time.After(700 * time.Millisecond): // a Stop that waits is blocked meanwhile: give up parking
				}
			}
		case strings.HasPrefix(p, "Result.Teardown") || strings.HasPrefix(p, "Result.Summary"):
			inFinal.Store(true)
		case strings.HasPrefix(p, "Result.SnapshotProgress") && strings.HasSuffix(p, ".Lock"):
			if released.Load() {
				select {
				case runnerAtLock <- struct{}{}:
				default:
				}
			}
		case strings.HasPrefix(p, "Result.Error") && strings.HasSuffix(p, ".RLock"):
			if inFinal.Load() && parked.Load() && released.CompareAndSwap(false, true) {
				close(releaseRunner)
				select {
				case <-runnerAtLock:
					time.Sleep(15 * time.Millisecond) // let the writer announce itself
				case <-time.After(300 * time.Millisecond):
				}
			}
		}
	})
	defer hook.Set(nil)
	scenario := func(*f1testing.T) f1testing.RunFn {
		return func(*f1testing.T) { time.Sleep(time.Millisecond) }
	}
	// the progress runner ticks once per second: arm shortly before the first tick, end the run shortly after it
	go func() { time.Sleep(850 * time.Millisecond); armed.Store(true) }()
	cfg := runkit.Config{Mode: "users", Scenario: scenario, Ctx: context.Background(),
		Opts: options.RunOptions{MaxDuration: 1200 * time.Millisecond, Concurrency: 2, IgnoreDropped: true}}
	out, hung, dump := runkit.DoTimeout(cfg, 8*time.Second)
	np := 0
	points.Range(func(_, _ any) bool { np++; return true })
	o.Stat("gate_points_seen", np)
	o.Stat("gate_runner_parked", parked.Load())
	if hung {
		o.Fail("run-wedged-by-late-progress-tick", "Run.Do never returned: a progress tick dispatched after Stop had returned took the result's write lock between the nested read locks of the final rendering: "+dump[:min(len(dump), 2500)])
		return true
	}
	if out.Err != nil {
		o.Fail("run-error", fmt.Sprintf("gate run failed: %v", out.Err))
		return true
	}
	if !parked.Load() {
		return false
	}
	o.Case("c05_ok", []string{"0", "0", "0", "0", "0", kit.Str("gate/late-progress-tick/" + strconv.Itoa(idx))}, "T", "gate", "nt")
	return true
}

// Witness of the recorded finding: a config file with a users stage whose iteration does not
// finish; the completion timeout (150ms) should bound the wait after max-duration (200ms).
func knownFindingWitness(o *kit.Out, dir string) {
	release := make(chan struct{})
	scenario := func(*f1testing.T) f1testing.RunFn {
		return func(*f1testing.T) {
			select {
			case <-release:
			case <-time.After(20 * time.Second):
			}
		}
	}
	y := `scenario: verifscenario
default:
  jitter: 0
  distribution: none
limits:
  max-duration: 200ms
  concurrency: 2
  max-iterations: 0
  ignore-dropped: true
stages:
  - duration: 1s
    mode: users
    concurrency: 2
`
	p := filepath.Join(dir, "c05_known.yaml")
	_ = os.WriteFile(p, []byte(y), 0o600)
	go func() { time.Sleep(1500 * time.Millisecond); close(release) }()
	t0 := time.Now()
	_, hung, _ := runkit.DoTimeout(runkit.Config{Mode: "file", FileArg: p, Scenario: scenario, Ctx: context.Background(), Wait: 150 * time.Millisecond}, 30*time.Second)
	el := time.Since(t0)
	if hung || el > 1200*time.Millisecond {
		o.Fail("file-users-stage-ignores-completion-timeout", fmt.Sprintf("file-triggered run with a users stage returned after %s (max-duration 200ms + completion timeout 150ms): the stage waits for its workers without bound", el.Round(time.Millisecond)))
	}
}

// ---------------------------------------------------------------- the result's lock under the two goroutines that share it during a run

// While a run is triggering, exactly two goroutines use the Result: the progress reporter
// (SnapshotProgress, then Progress / HasDroppedIterations) and the goroutine of Run.Do
// (RecordStarted, the end-of-triggering messages, RecordTestFinished). sync.RWMutex is
// writer-preferring: if any of the readers took the read lock recursively, a writer arriving
// in between would wedge both, and Run.Do would never return. The stress replays exactly
// those calls against each other.
func TestC05Locks(t *testing.T) {
	o := kit.Get()
	defer o.Close()
	rounds := kit.N(150000, 1500000)
	res := run.VerifResultFrom(options.RunOptions{MaxDuration: time.Second}, nil, progress.Snapshot{})
	res.RecordStarted()
	done := make(chan struct{}, 2)
	go func() { // the progress reporter
		for i := 0; i < rounds; i++ {
			res.SnapshotProgress(time.Second)
			_ = res.Progress()
			_ = res.HasDroppedIterations()
		}
		done <- struct{}{}
	}()
	go func() { // Run.Do / Run.run
		for i := 0; i < rounds; i++ {
			_ = res.MaxDurationElapsed()
			_ = res.Interrupted()
			_ = res.MaxIterationsReached()
			res.RecordTestFinished()
			res.RecordStarted()
			_ = res.Error()
		}
		done <- struct{}{}
	}()
	for k := 0; k < 2; k++ {
		select {
		case <-done:
		case <-time.After(60 * time.Second):
			buf := make([]byte, 1<<16)
			n := runtime.Stack(buf, true)
			o.Fail("result-lock-wedged", "the progress reporter's calls (SnapshotProgress, Progress, HasDroppedIterations) and Run.Do's calls (MaxDurationElapsed, Interrupted, MaxIterationsReached, RecordTestFinished, RecordStarted, Error) on one Result wedged each other: "+string(buf[:min(n, 3000)]))
			return
		}
	}
	o.Stat("lock_stress_rounds", rounds)
	o.Case("c05_ok", []string{"0", "0", "0", "0", "0", kit.Str("result-lock/reporter-vs-run")}, "T", "locks", "nt")
}

// ---------------------------------------------------------------- a run whose context is cancelled before it begins triggers nothing

func TestC05PreCancelled(t *testing.T) {
	o := kit.Get()
	defer o.Close()
	r := kit.NewRand(kit.Seed() + 55)
	n := kit.N(120, 1200)
	worst := int64(0)
	for i := 0; i < n; i++ {
		mode := []string{"constant", "staged", "ramp", "gaussian"}[i%4]
		var started atomic.Int64
		scenario := func(*f1testing.T) f1testing.RunFn {
			return func(*f1testing.T) { started.Add(1) }
		}
		flags, _ := runkit.QuickMode(mode, r.Intn(6))
		ctx, cancel := context.WithCancel(context.Background())
		cancel()
		out, hung, dump := runkit.DoTimeout(runkit.Config{Mode: mode, Flags: flags, Scenario: scenario, Ctx: ctx,
			Opts: options.RunOptions{MaxDuration: time.Second, Concurrency: 10, IgnoreDropped: true}}, 30*time.Second)
		if hung {
			o.Fail("run-did-not-return", "a run with an already cancelled context did not return: "+dump[:min(len(dump), 2000)])
			return
		}
		if out.Err != nil {
			o.Fail("run-error", fmt.Sprintf("pre-cancelled run failed: %v", out.Err))
			return
		}
		if started.Load() > worst {
			worst = started.Load()
		}
	}
	// users mode: the pool of users comes up while the context is already (or just being)
	// cancelled; nothing is in flight, so the run returns at once - far from the completion timeout
	slowRuns := int64(0)
	for i := 0; i < kit.N(40, 400); i++ {
		scenario := func(*f1testing.T) f1testing.RunFn { return func(*f1testing.T) {} }
		ctx, cancel := context.WithCancel(context.Background())
		if i%2 == 0 {
			cancel()
		} else {
			go func() { time.Sleep(time.Duration(r.Range(0, 200)) * time.Microsecond); cancel() }()
		}
		t0 := time.Now()
		out, hung, dump := runkit.DoTimeout(runkit.Config{Mode: "users", Scenario: scenario, Ctx: ctx, Wait: 4 * time.Second,
			Opts: options.RunOptions{MaxDuration: time.Second, Concurrency: int(kit.Pick(r, 8, 50, 200)), IgnoreDropped: true}}, 30*time.Second)
		cancel()
		if hung {
			o.Fail("run-did-not-return", "a users run with a cancelled context did not return: "+dump[:min(len(dump), 2000)])
			return
		}
		if out.Err != nil {
			o.Fail("run-error", fmt.Sprintf("pre-cancelled users run failed: %v", out.Err))
			return
		}
		if el := time.Since(t0); el > 2*time.Second {
			slowRuns++
			if slowRuns == 1 {
				o.Fail("cancelled-users-run-waits", fmt.Sprintf("users run whose context was cancelled as it began, instant iterations, completion timeout 4s: Run.Do returned after %s although nothing was in flight", el))
			}
		}
	}
	o.Count("pre-cancelled", "users mode")
	o.Case("c05_ok", []string{"0", "0", "0", kit.I(slowRuns), "0", kit.Str("pre-cancelled/users")}, "T", "pre-cancelled", "users", "nt")
	o.Stat("pre_cancelled_runs", n)
	// c05_ok late_starts unfinished started_after_deadline slow leaked
	o.Case("c05_ok", []string{"0", "0", kit.I(worst), "0", "0", kit.Str("pre-cancelled/rate-triggers")}, "T", "pre-cancelled", "nt")
}
