//go:build verif

package c05

import (
	"fmt"
	"runtime"
	"strings"
	"testing"
	"time"

	"github.com/form3tech-oss/f1/v2/internal/verifh/kit"
	"github.com/form3tech-oss/f1/v2/pkg/f1"
	f1testing "github.com/form3tech-oss/f1/v2/pkg/f1/testing"
)

func f1Goroutines() (int, string) {
	buf := make([]byte, 1<<20)
	n := runtime.Stack(buf, true)
	c, first := 0, ""
	for _, g := range strings.Split(string(buf[:n]), "\n\n") {
		if strings.Contains(g, "/pkg/f1.") || strings.Contains(g, "/internal/run.") || strings.Contains(g, "/internal/raterun.") || strings.Contains(g, "/internal/workers.") {
			if strings.Contains(g, "verifh/") {
				continue // the harness's own goroutine calling in
			}
			c++
			if first == "" {
				first = g
			}
		}
	}
	return c, first
}

// Executions through the public entry point, ending every way an execution can: passed, failed by
// its iterations, failed by its setup, failed by a setup cleanup, rejected (unknown scenario, bad
// flag): once ExecuteWithArgs has returned, no goroutine of f1 remains (signal watcher included).
func TestC05CLI(t *testing.T) {
	o := kit.Get()
	defer o.Close()
	r := kit.NewRand(kit.Seed() + 56)
	for i := 0; i < kit.N(12, 90); i++ {
		how := i % 6
		name := fmt.Sprintf("c05cli%d", i)
		inst := f1.New()
		inst.Add(name, func(st *f1testing.T) f1testing.RunFn {
			if how == 2 {
				st.Fail()
			}
			if how == 3 {
				st.Cleanup(func() { st.Fail() })
			}
			return func(t *f1testing.T) {
				if how == 1 {
					t.Fail()
				}
			}
		})
		mode := []string{"users", "constant"}[(i/6)%2]
		args := []string{"run", mode, name, "--max-duration", "2s", "--max-iterations", kit.I(r.Range(1, 9)), "--concurrency", "2"}
		if mode == "constant" {
			args = append(args, "--rate", "5/10ms", "--ignore-dropped")
		}
		switch how {
		case 4:
			args[2] = name + "-unknown"
		case 5:
			args = append(args, "--max-failures-rate", "x")
		}
		var err error
		crashed, _ := kit.Guard(func() { err = inst.ExecuteWithArgs(args) })
		if crashed {
			o.Fail("c05-cli-crash", "execution crashed")
			continue
		}
		left, stack := 0, ""
		for w := 0; w < 40; w++ {
			if left, stack = f1Goroutines(); left == 0 {
				break
			}
			time.Sleep(5 * time.Millisecond)
		}
		ending := []string{"passed", "failed by its iterations", "failed setup", "failing setup cleanup", "unknown scenario", "bad flag value"}[how]
		o.Count("cli-ending", ending)
		if (how == 0) != (err == nil) {
			o.Fail("c05-cli-verdict", fmt.Sprintf("execution %s returned error %v", ending, err))
		}
		if left > 0 {
			o.Fail("goroutine-left-after-execute", fmt.Sprintf("f1 %s (%s): %d goroutine(s) of f1 still alive 200 ms after ExecuteWithArgs returned, e.g.\n%s", strings.Join(args, " "), ending, left, stack[:min(len(stack), 1200)]))
		}
		o.Case("c05_ok", []string{"0", "0", "0", "0", kit.I(left)}, "T", "cli", "nt")
	}
}
