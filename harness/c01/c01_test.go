//go:build verif

package c01

import (
	"context"
	"fmt"
	"github.com/stretchr/testify/assert"
	"os"
	"path/filepath"
	"runtime"
	"strconv"
	"sync"
	"sync/atomic"
	"testing"
	"time"

	"github.com/sirupsen/logrus"

	"github.com/form3tech-oss/f1/v2/internal/log"
	"github.com/form3tech-oss/f1/v2/internal/metrics"
	"github.com/form3tech-oss/f1/v2/internal/options"
	"github.com/form3tech-oss/f1/v2/internal/progress"
	"github.com/form3tech-oss/f1/v2/internal/run"
	"github.com/form3tech-oss/f1/v2/internal/run/views"
	"github.com/form3tech-oss/f1/v2/internal/verifh/kit"
	"github.com/form3tech-oss/f1/v2/internal/verifh/runkit"
	"github.com/form3tech-oss/f1/v2/internal/workers"
	"github.com/form3tech-oss/f1/v2/pkg/f1/scenarios"
	f1testing "github.com/form3tech-oss/f1/v2/pkg/f1/testing"
)

// ---------------------------------------------------------------- C17: sequential differential

func snapStr(d progress.IterationDurationsSnapshot) string {
	return kit.List(kit.I(int64(d.Average)), kit.I(d.Count), kit.I(int64(d.Min)), kit.I(int64(d.Max)))
}

func fullSnap(s progress.Snapshot) string {
	return kit.List(kit.I(s.DroppedIterationCount), snapStr(s.SuccessfulIterationDurationsForPeriod),
		snapStr(s.SuccessfulIterationDurations), snapStr(s.FailedIterationDurations))
}

func TestC17Seq(t *testing.T) {
	o := kit.Get()
	defer o.Close()
	r := kit.NewRand(kit.Seed() + 17)
	results := []metrics.ResultType{metrics.SuccessResult, metrics.FailedResult, metrics.DroppedResult, metrics.UnknownResult}
	n := kit.N(400, 6000)
	for i := 0; i < n; i++ {
		ln := int(r.Range(0, 60))
		if r.Chance(5) {
			ln = int(r.Range(500, 2000))
		}
		st := &progress.Stats{}
		var ops []string
		var snaps []string
		durMode := r.Intn(4)
		// a long soak: thousands of iterations of about two hours (or a few of many days), so that the
		// lifetime sums pass 2^53 ns; all but one iteration take D+1 ns, one takes D: the exact mean
		// lies just below D+1
		soakD, soakOdd := int64(0), -1
		if i%25 == 7 {
			durMode = 4
			ln = int(r.Range(1500, 2600))
			soakD = kit.Pick(r, int64(7_200_000_000_000), 7_200_000_000_000, r.Range(6_000_000_000_000, 9_000_000_000_000))
			soakOdd = r.Intn(ln / 2)
			o.Count("durations", "long soak beyond 2^53 ns in total")
		}
		nsnap := 0
		for k := 0; k < ln; k++ {
			switch {
			case r.Chance(20):
				sn := st.Snapshot(time.Second)
				snaps = append(snaps, fullSnap(sn))
				ops = append(ops, "[1]")
				nsnap++
			case r.Chance(4):
				sn := st.Total()
				snaps = append(snaps, fullSnap(sn))
				ops = append(ops, "[2]")
				nsnap++
			default:
				oc := kit.Pick(r, 0, 0, 0, 1, 1, 2, 3)
				var ns int64
				switch durMode {
				case 0:
					ns = r.Range(1, 100)
				case 1:
					ns = r.Range(1, 3_600_000_000_000)
				case 2:
					ns = kit.Pick(r, int64(1), 2, 1000, 999_999_999, 7)
				case 4:
					ns = soakD + 1
					if k == soakOdd {
						ns = soakD
					}
					oc = kit.Pick(r, 0, 0, 0, 0, 0, 1) // mostly one outcome, so that its sum gets there
				default:
					ns = r.Range(1_000_000, 50_000_000)
				}
				if oc == 2 {
					ns = 0
				}
				st.Record(results[oc], ns)
				ops = append(ops, kit.List("0", kit.I(oc), kit.I(ns)))
			}
		}
		sn := st.Total()
		snaps = append(snaps, fullSnap(sn))
		ops = append(ops, "[2]")
		tags := []string{"seq"}
		if nsnap >= 2 {
			tags = append(tags, "nt")
		}
		o.Count("ops", kit.Bucket(int64(ln)))
		o.Count("snapshots", kit.Bucket(int64(nsnap)))
		o.Case("stats_run", []string{kit.List(ops...)}, "ok "+kit.List(snaps...), tags...)
	}
}

// ---------------------------------------------------------------- C01: component-level stress

type plan struct {
	outcomes [][]int // per worker: 0 pass, 1 fail, 2 dropped
}

func genPlan(r *kit.Rand, workers int, per int) plan {
	p := plan{outcomes: make([][]int, workers)}
	for w := range p.outcomes {
		n := per
		if r.Chance(30) {
			n = int(r.Range(0, int64(per)))
		}
		p.outcomes[w] = make([]int, n)
		bias := r.Intn(4)
		for i := range p.outcomes[w] {
			switch bias {
			case 0:
				p.outcomes[w][i] = 0
			case 1:
				p.outcomes[w][i] = kit.Pick(r, 0, 1)
			default:
				p.outcomes[w][i] = kit.Pick(r, 0, 0, 0, 1, 2)
			}
		}
	}
	return p
}

func (p plan) truth() (ns, nf, nd int64) {
	for _, w := range p.outcomes {
		for _, oc := range w {
			switch oc {
			case 0:
				ns++
			case 1:
				nf++
			default:
				nd++
			}
		}
	}
	return
}

// cadence is the period the progress reporter passes with its k-th snapshot: the reporter's own
// schedule (every second, then every 10 s, 30 s, 1 min), the changes of cadence brought forward.
func cadence(k int) time.Duration {
	return []time.Duration{time.Second, 10 * time.Second, 30 * time.Second, time.Minute}[min(k/6, 3)]
}

// stressOnce drives the real ActiveScenario.Run / RecordDroppedIteration from
// W goroutines while S goroutines take progress snapshots through the real
// Result (write lock), then takes the final totals.
func stressOnce(o *kit.Out, r *kit.Rand, w, per, snappers int, metricsOn bool, yield bool) {
	p := genPlan(r, w, per)
	ns, nf, nd := p.truth()
	m := runkit.NewMetrics(nil, metricsOn)
	stats := &progress.Stats{}
	res := run.NewResult(options.RunOptions{}, views.New(), stats)
	logger := log.NewDiscardLogger()
	sc := &scenarios.Scenario{Name: "c01", ScenarioFn: func(*f1testing.T) f1testing.RunFn {
		return func(t *f1testing.T) {
			if t.Iteration[0] == 'f' {
				t.Fail()
			}
		}
	}}
	as := workers.NewActiveScenario(sc, m, stats, logger, logrus.New())
	as.Setup()

	var wg sync.WaitGroup
	var done atomic.Bool
	var snaps atomic.Int64
	var swg sync.WaitGroup
	for s := 0; s < snappers; s++ {
		swg.Add(1)
		go func() {
			defer swg.Done()
			for k := 0; !done.Load(); k++ {
				res.SnapshotProgress(cadence(k))
				snaps.Add(1)
				if yield {
					runtime.Gosched()
				}
			}
		}()
	}
	for wi := 0; wi < w; wi++ {
		wg.Add(1)
		go func(outs []int) {
			defer wg.Done()
			st := as.VerifNewIterationState()
			tt := workers.VerifStateT(st)
			for i, oc := range outs {
				switch oc {
				case 0:
					tt.Reset("p" + strconv.Itoa(i))
					as.Run(st)
				case 1:
					tt.Reset("f" + strconv.Itoa(i))
					as.Run(st)
				default:
					as.RecordDroppedIteration()
				}
			}
		}(p.outcomes[wi])
	}
	wg.Wait()
	done.Store(true)
	swg.Wait()
	res.GetTotals()
	sn := res.Snapshot()
	iter, _, _ := runkit.SampleCounts(m)
	tags := []string{"stress"}
	if snaps.Load() > 0 && ns+nf > 0 {
		tags = append(tags, "nt")
	}
	o.AddStat("records", ns+nf+nd)
	o.AddStat("snapshots_during_stress", snaps.Load())
	o.Count("workers", kit.I(w))
	o.Case("c01_ok", []string{kit.I(ns), kit.I(nf), kit.I(nd),
		kit.I(sn.SuccessfulIterationDurations.Count), kit.I(sn.FailedIterationDurations.Count), kit.I(sn.DroppedIterationCount),
		kit.B(metricsOn), kit.I(iter["success"]), kit.I(iter["fail"]), kit.I(iter["dropped"])}, "T", tags...)
}

// coarseClockHistory records outcomes straight on the run's progress.Stats with the durations a
// coarse monotonic clock reports for very short iterations (multiples of its granularity, zero
// included): an iteration measured at 0 ns is still one iteration in every count.
func coarseClockHistory(o *kit.Out, r *kit.Rand) {
	stats := &progress.Stats{}
	res := run.NewResult(options.RunOptions{}, views.New(), stats)
	gran := kit.Pick(r, int64(100), 42, 1000, 15_600_000)
	w := int(kit.Pick(r, 1, 2, 8))
	per := int(r.Range(20, 400))
	zeroShare := int(kit.Pick(r, 30, 60, 100))
	var ns, nf, nd atomic.Int64
	var done atomic.Bool
	var swg, wg sync.WaitGroup
	swg.Add(1)
	go func() {
		defer swg.Done()
		for k := 0; !done.Load(); k++ {
			res.SnapshotProgress(cadence(k))
			runtime.Gosched()
		}
	}()
	for wi := 0; wi < w; wi++ {
		seed := r.U64()
		wg.Add(1)
		go func() {
			defer wg.Done()
			lr := kit.NewRand(seed)
			for i := 0; i < per; i++ {
				d := int64(0)
				if !lr.Chance(zeroShare) {
					d = gran * lr.Range(1, 3)
				}
				switch lr.Intn(5) {
				case 0, 1, 2:
					stats.Record(metrics.SuccessResult, d)
					ns.Add(1)
				case 3:
					stats.Record(metrics.FailedResult, d)
					nf.Add(1)
				default:
					stats.Record(metrics.DroppedResult, 0)
					nd.Add(1)
				}
			}
		}()
	}
	wg.Wait()
	done.Store(true)
	swg.Wait()
	res.GetTotals()
	sn := res.Snapshot()
	o.Count("history", "coarse clock (durations of 0 ns)")
	o.Case("c01_ok", []string{kit.I(ns.Load()), kit.I(nf.Load()), kit.I(nd.Load()),
		kit.I(sn.SuccessfulIterationDurations.Count), kit.I(sn.FailedIterationDurations.Count), kit.I(sn.DroppedIterationCount),
		"F", "0", "0", "0"}, "T", "stress", "coarse", "nt")
}

func TestC01Stress(t *testing.T) {
	o := kit.Get()
	defer o.Close()
	r := kit.NewRand(kit.Seed() + 1)
	rounds := kit.N(60, 600)
	per := kit.N(4000, 20000)
	for i := 0; i < rounds; i++ {
		w := kit.Pick(r, 1, 2, 4, 8, 16, 32)
		snappers := kit.Pick(r, 1, 1, 2, 3)
		stressOnce(o, r, w, per, snappers, r.Chance(70), r.Bool())
	}
	for i := 0; i < kit.N(30, 300); i++ {
		coarseClockHistory(o, r)
	}
}

// ---------------------------------------------------------------- C01: whole runs

// fileBurstInterrupted: a config-file run whose first tick asks for hundreds of thousands of
// iterations of one busy worker; the run is interrupted as soon as the first of them is reported
// dropped, i.e. while the stage is still reporting. Every request is in the final result: started
// or dropped, and the exported metric says the same.
func fileBurstInterrupted(o *kit.Out, r *kit.Rand, dir string, idx int) {
	burst := r.Range(300000, 700000)
	yaml := fmt.Sprintf("scenario: verifscenario\ndefault:\n  mode: constant\n  rate: 1/s\n  jitter: 0\n  distribution: none\n  concurrency: 1\n"+
		"limits:\n  max-duration: 20s\n  concurrency: 1\n  max-iterations: 0\n  ignore-dropped: true\nstages:\n"+
		"  - duration: 10s\n    mode: constant\n    rate: %d/100ms\n  - duration: 5s\n    mode: users\n    concurrency: 1\n", burst)
	path := filepath.Join(dir, "c01burst_"+strconv.Itoa(idx)+".yaml")
	_ = os.WriteFile(path, []byte(yaml), 0o600)
	m := runkit.NewMetrics(nil, true)
	ctx, cancelRun := context.WithCancel(context.Background())
	defer cancelRun()
	release := make(chan struct{})
	var started atomic.Int64
	go func() {
		// interrupt as soon as the exported metric shows a dropped iteration
		for ctx.Err() == nil {
			if it, _, _ := runkit.SampleCounts(m); it["dropped"] > 0 {
				cancelRun()
				close(release)
				return
			}
			time.Sleep(200 * time.Microsecond)
		}
	}()
	out, hung, dump := runkit.DoTimeout(runkit.Config{Mode: "file", FileArg: path, Ctx: ctx, Metrics: m,
		Scenario: func(*f1testing.T) f1testing.RunFn {
			return func(*f1testing.T) {
				started.Add(1)
				select {
				case <-release:
				case <-time.After(15 * time.Second):
				}
			}
		}}, 90*time.Second)
	if hung {
		o.Fail("c01-run-hung", "interrupted file run did not return: "+dump[:min(len(dump), 2000)])
		return
	}
	if out.Err != nil || out.Result == nil {
		o.Fail("c01-run-error", "interrupted file run failed")
		return
	}
	time.Sleep(300 * time.Millisecond) // whatever is still being reported after the run returned shows in the metric
	sn := out.Result.Snapshot()
	iter, _, _ := runkit.SampleCounts(m)
	o.Count("ending", "file run interrupted while a burst is being reported dropped")
	if sn.DroppedIterationCount != iter["dropped"] {
		o.Fail("counts-differ", fmt.Sprintf("config-file run (first tick %d requests, one busy worker) interrupted while requests were being reported dropped: the final result has %d dropped iterations, the exported metric %d",
			burst, sn.DroppedIterationCount, iter["dropped"]))
	}
	o.Case("c01_ok", []string{kit.I(started.Load()), "0", kit.I(iter["dropped"]), kit.I(sn.SuccessfulIterationDurations.Count), kit.I(sn.FailedIterationDurations.Count), kit.I(sn.DroppedIterationCount),
		"T", kit.I(iter["success"]), kit.I(iter["fail"]), kit.I(iter["dropped"])}, "T", "run", "file-burst", "nt")
}

func TestC01Runs(t *testing.T) {
	o := kit.Get()
	defer o.Close()
	r := kit.NewRand(kit.Seed() + 2)
	rounds := kit.N(10, 80)
	// like the process-wide instance of a real f1 binary, one metrics instance serves
	// consecutive runs of the same scenario (Run.Do resets it at the start of every run)
	shared := runkit.NewMetrics(nil, true)
	burstDir := t.TempDir()
	for k := 0; k < kit.N(2, 8); k++ {
		fileBurstInterrupted(o, r, burstDir, k)
	}
	for i := 0; i < rounds; i++ {
		if i%2 == 0 {
			wholeRun(o, r, i, shared)
		} else {
			wholeRun(o, r, i, nil)
		}
	}
}

func wholeRun(o *kit.Out, r *kit.Rand, idx int, m *metrics.Metrics) {
	mode := kit.Pick(r, "users", "users", "constant", "staged", "file")
	if idx%5 == 4 {
		mode = "file"
	}
	dir := os.TempDir()
	conc := int(r.Range(1, 16))
	var passed, failed atomic.Int64
	failEvery := int64(kit.Pick(r, 0, 2, 3, 7))
	if idx%5 == 4 {
		failEvery = int64(kit.Pick(r, 2, 3))
	}
	var stop atomic.Bool
	var forced atomic.Int64
	var swg sync.WaitGroup
	scenario := func(st *f1testing.T) f1testing.RunFn {
		// the forced snapshots stand for progress ticks; like the progress
		// runner they must be over before the final teardown/summary is
		// rendered, so they are stopped by the first thing teardown does
		st.Cleanup(func() { stop.Store(true); swg.Wait() })
		return func(t *f1testing.T) {
			n, _ := strconv.ParseInt(t.Iteration, 10, 64)
			// in file mode iterations outlive the stage that started them (the next stage's pool
			// starts meanwhile): the outcome is decided first, the body goes on for a while
			linger := func() {
				if mode == "file" {
					time.Sleep(time.Duration(n%5) * 15 * time.Millisecond)
				}
			}
			if failEvery > 0 && n%failEvery == 0 {
				failed.Add(1)
				switch (n / failEvery) % 6 { // a failed iteration is a failed iteration however it fails
				case 4:
					t.Errorf("iteration %d failed", n)
					linger()
				case 5:
					assert.Equal(t, 1, 2, "a failed assertion")
					linger()
				case 0:
					t.Fail()
					linger()
				case 1:
					linger()
					t.FailNow()
				case 2:
					linger()
					panic("iteration panicked")
				default:
					linger()
					var m map[string]int
					m["x"] = 1
				}
				return
			}
			passed.Add(1)
			linger()
		}
	}
	flags := map[string]string{}
	switch mode {
	case "constant":
		flags["rate"] = kit.Pick(r, "50/10ms", "200/20ms", "10/5ms")
		flags["distribution"] = "none"
	case "staged":
		flags["stages"] = "100ms:200,100ms:50"
		flags["iterationFrequency"] = "10ms"
		flags["distribution"] = "none"
	}
	fileArg := ""
	if mode == "file" {
		_, yaml := runkit.QuickMode("file", 0)
		fileArg = filepath.Join(dir, "c01_"+strconv.Itoa(idx)+"_"+strconv.Itoa(os.Getpid())+".yaml")
		_ = os.WriteFile(fileArg, []byte(yaml), 0o600)
		defer os.Remove(fileArg)
	}
	cfg := runkit.Config{
		Mode: mode, Flags: flags, Scenario: scenario, FileArg: fileArg,
		Opts: options.RunOptions{MaxDuration: time.Duration(r.Range(150, 350)) * time.Millisecond, Concurrency: conc,
			MaxIterations: uint64(kit.Pick(r, 0, 0, 500, 5000)), IgnoreDropped: true, MaxFailuresRate: 100},
		Ctx: context.Background(), Metrics: m, LogKind: idx % 3, // whatever the scenario logger lets through
		OnRun: func(rn *run.Run) {
			swg.Add(1)
			go func() {
				defer swg.Done()
				for k := 0; !stop.Load(); k++ {
					rn.VerifResult().SnapshotProgress(cadence(k))
					forced.Add(1)
					runtime.Gosched()
				}
			}()
		},
	}
	if idx%3 == 2 {
		// the run is interrupted (a cancelled context is what SIGINT / SIGTERM amount to) somewhere in
		// the middle: every iteration that ran is in the totals all the same
		ctx, cancelRun := context.WithCancel(context.Background())
		defer cancelRun()
		cfg.Ctx = ctx
		cfg.OnRun = nil // no forced snapshots: what ran since the last progress line is still in its period
		after := time.Duration(r.Range(40, 140)) * time.Millisecond
		go func() { time.Sleep(after); cancelRun() }()
		o.Count("ending", "interrupted mid-run")
	}
	out, hung, dump := runkit.DoTimeout(cfg, 60*time.Second)
	stop.Store(true)
	if hung {
		o.Fail("c01-run-hung", "whole run ("+mode+") did not return within 60s; goroutines: "+dump[:min(len(dump), 3000)])
		return
	}
	swg.Wait()
	if out.Err != nil || out.Result == nil {
		o.Fail("c01-run-error", "whole run did not produce a result: "+mode+" "+errStr(out.Err))
		return
	}
	sn := out.Result.Snapshot()
	iter, _, _ := runkit.SampleCounts(out.Metrics)
	// dropped iterations are reported by f1 itself; the exported metric and the
	// result must agree on them, successes and failures must equal the scenario's own counts
	nd := int64(sn.DroppedIterationCount)
	tags := []string{"run", mode}
	if forced.Load() > 0 && passed.Load()+failed.Load() > 0 {
		tags = append(tags, "nt")
	}
	o.AddStat("run_iterations", passed.Load()+failed.Load())
	o.AddStat("forced_snapshots", forced.Load())
	o.Count("metrics-instance", map[bool]string{true: "shared with earlier runs", false: "fresh"}[m != nil])
	o.Case("c01_ok", []string{kit.I(passed.Load()), kit.I(failed.Load()), kit.I(nd),
		kit.I(sn.SuccessfulIterationDurations.Count), kit.I(sn.FailedIterationDurations.Count), kit.I(sn.DroppedIterationCount),
		"T", kit.I(iter["success"]), kit.I(iter["fail"]), kit.I(iter["dropped"])}, "T", tags...)
}

func errStr(e error) string {
	if e == nil {
		return "<nil>"
	}
	return e.Error()
}

// ---------------------------------------------------------------- C17: the duration is measured around the body, however it ends

type fieldErrs []string

func (f fieldErrs) Error() string { return "invalid" }

func TestC17Measured(t *testing.T) {
	o := kit.Get()
	defer o.Close()
	r := kit.NewRand(kit.Seed() + 171)
	n := kit.N(60, 600)
	for i := 0; i < n; i++ {
		how := r.Intn(8)
		spend := time.Duration(r.Range(300, 3000)) * time.Microsecond
		var bodyNs int64
		stats := &progress.Stats{}
		m := runkit.NewMetrics(nil, true)
		// the worker's previous iteration (of the other outcome, so that the figures stay apart) left
		// a slow cleanup: none of that time belongs to the iteration measured next
		prev := false
		prevCleanup := time.Duration(r.Range(1000, 3000)) * time.Microsecond
		ownCleanup := i%4 == 2
		cleanupFor := time.Duration(r.Range(15, 40)) * time.Millisecond
		sc := &scenarios.Scenario{Name: "c17", ScenarioFn: func(*f1testing.T) f1testing.RunFn {
			return func(t *f1testing.T) {
				if prev {
					t.Cleanup(func() { time.Sleep(prevCleanup) })
					if how < 2 {
						t.Fail()
					}
					return
				}
				if ownCleanup {
					// the measured iteration's own cleanup takes long: however the body ends, that time is
					// after the iteration's clock was stopped
					t.Cleanup(func() { time.Sleep(cleanupFor) })
				}
				t0 := time.Now()
				for time.Since(t0) < spend {
					runtime.Gosched()
				}
				bodyNs = int64(time.Since(t0)) // the body's own clock, read just before it ends
				switch how {
				case 0, 1:
				case 2:
					t.Fail()
				case 3:
					t.FailNow()
				case 4:
					t.Fatalf("fatal")
				case 5:
					t.Require().Equal(1, 2)
				case 6:
					panic("a value")
				default:
					panic(fieldErrs{"x"})
				}
			}
		}}
		// two rounds on the same metrics instance, as two executions of the scenario in one process
		// are: every run begins by resetting the instance (Run.Do), sets the scenario up and runs
		rounds := 1 + i%2
		for round := 0; round < rounds; round++ {
			m.Reset()
			stats = &progress.Stats{}
			as := workers.NewActiveScenario(sc, m, stats, log.NewDiscardLogger(), logrus.New())
			as.Setup()
			st := as.VerifNewIterationState()
			if i%3 == 1 {
				prev = true
				workers.VerifStateT(st).Reset("0")
				as.Run(st)
				prev = false
				o.Count("worker", "previous iteration left a slow cleanup")
			}
			workers.VerifStateT(st).Reset("1")
			t0 := time.Now()
			crashed, pv := kit.Guard(func() { as.Run(st) })
			outer := int64(time.Since(t0))
			if ownCleanup {
				// the worker's call also spans the cleanup (at least cleanupFor): what is left is an upper
				// bound for the time the iteration's clock may show
				outer -= int64(cleanupFor)
				o.Count("worker", "measured iteration has a slow cleanup of its own")
			}
			if crashed {
				o.Fail("c17-worker-crash", "a panic escaped the iteration: "+kit.Str(fmt.Sprint(pv)))
				break
			}
			tot := stats.Total()
			d := tot.SuccessfulIterationDurations
			label := "success"
			if how >= 2 {
				d = tot.FailedIterationDurations
				label = "fail"
			}
			if d.Count != 1 {
				o.Fail("c17-count", "one iteration (ending "+strconv.Itoa(how)+") was recorded "+strconv.FormatUint(d.Count, 10)+" times under its outcome")
				break
			}
			// the exported metric: one sample under the outcome's label, its value the recorded duration
			_, _, fams := runkit.SampleCounts(m)
			var expCount uint64
			var expSum float64
			for _, f := range fams {
				if f.GetName() != "form3_loadtest_iteration" {
					continue
				}
				for _, mt := range f.GetMetric() {
					lab := map[string]string{}
					for _, l := range mt.GetLabel() {
						lab[l.GetName()] = l.GetValue()
					}
					if lab["stage"] == "iteration" && lab["result"] == label {
						expCount += mt.GetSummary().GetSampleCount()
						expSum += mt.GetSummary().GetSampleSum()
					}
				}
			}
			if expCount != 1 {
				o.Fail("c17-exported-count", fmt.Sprintf("round %d on one metrics instance: one iteration (ending %d) ran, the exported iteration metric holds %d sample(s) labelled %s", round+1, how, expCount, label))
				break
			}
			o.Count("body-ends-by", []string{"return", "return", "Fail+return", "FailNow", "Fatalf", "failed require", "panic(string)", "panic(slice error)"}[how])
			o.Count("round-on-the-metrics-instance", strconv.Itoa(round+1))
			tags := []string{"measured"}
			if how >= 3 {
				tags = append(tags, "nt")
			}
			o.Case("measured_ok", []string{kit.I(bodyNs), kit.I(int64(d.Min)), kit.I(outer)}, "T", tags...)
			o.Case("measured_ok", []string{kit.I(bodyNs), kit.I(int64(d.Max)), kit.I(outer)}, "T", "measured")
			o.Case("measured_ok", []string{kit.I(bodyNs), kit.I(int64(d.Average)), kit.I(outer)}, "T", "measured")
			o.Case("measured_ok", []string{kit.I(bodyNs), kit.I(int64(expSum)), kit.I(outer)}, "T", "measured", "exported")
		}
	}
}
