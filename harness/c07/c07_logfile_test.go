//go:build verif

package c07

import (
	"errors"
	"fmt"
	"os"
	"os/exec"
	"strings"
	"sync/atomic"
	"testing"

	"github.com/form3tech-oss/f1/v2/internal/verifh/kit"
	"github.com/form3tech-oss/f1/v2/pkg/f1"
	f1testing "github.com/form3tech-oss/f1/v2/pkg/f1/testing"
)

// A run whose log file cannot be created (LOG_FILE_PATH names a directory, or a path below a file):
// f1 says so and goes on; iterations that fail through an API that logs (Errorf, Fatal, a failed
// assertion, a panic) are failed iterations like any other - the process survives and the later
// iterations on the worker are reported by their own outcome. Runs in a child process, since what
// is at stake is the process.
func TestC07LogFile(t *testing.T) {
	o := kit.Get()
	defer o.Close()
	dir := t.TempDir()
	plain := dir + "/plain"
	_ = os.WriteFile(plain, []byte("x"), 0o600)
	for i, target := range []string{dir, plain + "/below/a/file.log", ""} {
		cmd := exec.Command(os.Args[0], "-test.run", "^TestC07LogFileChild$", "-test.count=1")
		cmd.Env = append(os.Environ(), "VERIF_C07_CHILD=1")
		if target != "" {
			cmd.Env = append(cmd.Env, "LOG_FILE_PATH="+target)
		}
		outb, err := cmd.CombinedOutput()
		how := []string{"log file path is a directory", "log file path lies below a plain file", "default log file"}[i]
		o.Count("log-file", how)
		var passed, failed int64
		found := false
		for _, line := range strings.Split(string(outb), "\n") {
			if strings.HasPrefix(line, "C07LOG ") {
				found = true
				_, _ = fmt.Sscanf(line, "C07LOG %d %d", &passed, &failed)
			}
		}
		if err != nil || !found {
			tail := string(outb)
			if len(tail) > 1500 {
				tail = tail[len(tail)-1500:]
			}
			o.Fail("process-died", fmt.Sprintf("%s: a run of 8 iterations, four of which fail through Errorf / Fatal / a failed assertion / a panic, took the process down (%v): ...%s", how, err, tail))
		}
		o.Case("c01_ok", []string{"4", "4", "0", kit.I(passed), kit.I(failed), "0", "F", "0", "0", "0"}, "T", "log-file", "nt")
	}
}

func TestC07LogFileChild(t *testing.T) {
	if os.Getenv("VERIF_C07_CHILD") == "" {
		t.Skip("runs as a child of TestC07LogFile")
	}
	var passed, failed atomic.Int64
	inst := f1.New()
	inst.Add("c07log", func(*f1testing.T) f1testing.RunFn {
		return func(t *f1testing.T) {
			var n int
			_, _ = fmt.Sscanf(t.Iteration, "%d", &n)
			if n%2 == 1 {
				passed.Add(1)
				return
			}
			failed.Add(1)
			switch (n / 2) % 4 {
			case 0:
				t.Errorf("iteration %d fails", n)
			case 1:
				t.Fatal(errors.New("fatal"))
			case 2:
				t.Require().Equal(1, 2)
			default:
				panic("iteration panics")
			}
		}
	})
	_ = inst.ExecuteWithArgs([]string{"run", "users", "c07log", "--concurrency", "1", "--max-iterations", "8", "--max-failures-rate", "100"})
	fmt.Printf("\nC07LOG %d %d\n", passed.Load(), failed.Load())
}
