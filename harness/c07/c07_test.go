//go:build verif

package c07

import (
	"context"
	"errors"
	"fmt"
	"github.com/form3tech-oss/f1/v2/internal/log"
	"github.com/form3tech-oss/f1/v2/internal/progress"
	"github.com/form3tech-oss/f1/v2/internal/workers"
	"github.com/form3tech-oss/f1/v2/pkg/f1/scenarios"
	"github.com/sirupsen/logrus"
	"os"
	"path/filepath"
	"strconv"
	"sync"
	"sync/atomic"
	"testing"
	"time"

	"github.com/stretchr/testify/require"

	"github.com/form3tech-oss/f1/v2/internal/options"
	"github.com/form3tech-oss/f1/v2/internal/verifh/kit"
	"github.com/form3tech-oss/f1/v2/internal/verifh/runkit"
	"github.com/form3tech-oss/f1/v2/pkg/f1"
	f1testing "github.com/form3tech-oss/f1/v2/pkg/f1/testing"
)

type custom struct{ v int }

// behave performs outcome kind k on t; returns whether the iteration must be reported failed.
func behave(t *f1testing.T, k int) {
	switch k {
	case 0, 1, 2, 3: // pass
	case 4:
		t.Fail()
	case 5:
		t.Error(errors.New("e"))
	case 6:
		t.Errorf("e %d", 1)
	case 7:
		t.FailNow()
	case 8:
		t.Fatal(errors.New("f"))
	case 9:
		t.Fatalf("f")
	case 10:
		t.Require().Equal(1, 2)
	case 11:
		require.Len(t, []int{1}, 2)
	case 12:
		panic(errors.New("error value"))
	case 13:
		panic("string value")
	case 14:
		panic(custom{3})
	case 15:
		var m map[int]int
		m[1] = 1
	case 16:
		var s []int
		_ = s[k]
	case 17:
		panic(17)
	case 18:
		panic(fieldErrors{"a", "b"}) // error value of a non-comparable dynamic type
	case 19:
		panic(map[string]int{"x": 1})
	case 20:
		panic(struct{ xs []int }{[]int{1}})
	case 21:
		t.Error(nil) // an Error variant, whatever the value
	case 22:
		t.Fatal(nil)
	}
}

type fieldErrors []string

func (f fieldErrors) Error() string { return "invalid fields" }

const nkinds = 23

func TestC07Runs(t *testing.T) {
	o := kit.Get()
	defer o.Close()
	r := kit.NewRand(kit.Seed() + 7)
	dir := t.TempDir()
	rounds := kit.N(18, 150)
	for i := 0; i < rounds; i++ {
		mode := runkit.Modes[i%len(runkit.Modes)]
		salt := r.U64()
		failShare := kit.Pick(r, 0, 20, 50, 90)
		kindOf := func(id uint64) int {
			h := (id*0x9E3779B97F4A7C15 ^ salt) >> 33
			if int(h%100) >= failShare {
				return int(h>>8) % 4
			}
			return 4 + int(h>>8)%(nkinds-4)
		}
		var passed, failed, dirty, shared atomic.Int64
		// iterations that outlive the stage (or tick) that started them: in file mode the next
		// stage's pool starts while they are still running
		straddle := mode == "file" || r.Chance(30)
		var liveMu sync.Mutex
		live := map[*f1testing.T]bool{}
		// something marks the SCENARIO's handle (the one setup got) while iterations are in flight:
		// that is nobody's iteration outcome
		markScenario := i%4 == 3
		scenario := func(scT *f1testing.T) f1testing.RunFn {
			return func(t *f1testing.T) {
				if t.Failed() {
					dirty.Add(1)
				}
				if markScenario {
					if n, _ := strconv.ParseUint(t.Iteration, 10, 64); n%7 == 3 {
						scT.Errorf("scenario-level error reported during iteration %d", n)
					}
				}
				liveMu.Lock()
				if live[t] {
					shared.Add(1)
				}
				live[t] = true
				liveMu.Unlock()
				defer func() {
					liveMu.Lock()
					delete(live, t)
					liveMu.Unlock()
				}()
				id, _ := strconv.ParseUint(t.Iteration, 10, 64)
				k := kindOf(id)
				if k >= 4 {
					failed.Add(1)
				} else {
					passed.Add(1)
				}
				if !straddle {
					behave(t, k)
					return
				}
				d := time.Duration(((id*0x2545F4914F6CDD1D^salt)>>40)%70) * time.Millisecond
				if k >= 4 && k <= 6 { // non-fatal marks: the failure is on record while the body goes on
					behave(t, k)
					time.Sleep(d)
					return
				}
				time.Sleep(d)
				behave(t, k)
			}
		}
		flags, yaml := runkit.QuickMode(mode, r.Intn(6))
		// the body is the middle (or last) part of a scenario put together with CombineScenarios:
		// the parts before it pass, and its outcome is the iteration's outcome all the same
		combined := i%5 == 2
		var useScenario f1testing.ScenarioFn = scenario
		if combined {
			quiet := func(*f1testing.T) f1testing.RunFn { return func(it *f1testing.T) { it.Cleanup(func() {}) } }
			if i%2 == 0 {
				useScenario = f1.CombineScenarios(quiet, scenario, quiet)
			} else {
				useScenario = f1.CombineScenarios(quiet, quiet, scenario)
			}
			o.Count("scenario", "combined, body not the first part")
		}
		cfg := runkit.Config{Mode: mode, Flags: flags, Scenario: useScenario, Ctx: context.Background(),
			Opts: options.RunOptions{MaxDuration: time.Duration(r.Range(120, 260)) * time.Millisecond,
				Concurrency: int(r.Range(1, 12)), IgnoreDropped: true, MaxFailuresRate: 100,
				MaxIterations: uint64(kit.Pick(r, 0, 0, 300))}}
		if mode == "file" {
			cfg.FileArg = filepath.Join(dir, "c07_"+strconv.Itoa(i)+".yaml")
			_ = os.WriteFile(cfg.FileArg, []byte(yaml), 0o600)
		}
		out, hung, dump := runkit.DoTimeout(cfg, 60*time.Second)
		if hung {
			o.Fail("c07-run-hung", "run did not return ("+mode+"): "+dump[:min(len(dump), 2500)])
			continue
		}
		if out.Err != nil || out.Result == nil {
			o.Fail("c07-run-error", "run failed to execute ("+mode+")")
			continue
		}
		if dirty.Load() > 0 {
			o.Fail("dirty-handle", "T.Failed() was already true at body entry in mode "+mode)
		}
		if shared.Load() > 0 {
			o.Fail("shared-handle", "an iteration was started on a T that another iteration was still running on ("+strconv.FormatInt(shared.Load(), 10)+" times, mode "+mode+", bodies outliving their stage)")
		}
		if markScenario {
			o.Count("scenario-handle", "marked failed during the run")
		}
		if straddle {
			o.Count("bodies", "outliving their tick/stage")
		} else {
			o.Count("bodies", "instant")
		}
		sn := out.Result.Snapshot()
		iter, _, _ := runkit.SampleCounts(out.Metrics)
		tags := []string{"run", mode}
		if failed.Load() > 0 && passed.Load() > 0 {
			tags = append(tags, "nt")
		}
		o.Count("mode", mode)
		o.AddStat("iterations", passed.Load()+failed.Load())
		o.Case("c01_ok", []string{kit.I(passed.Load()), kit.I(failed.Load()), kit.I(sn.DroppedIterationCount),
			kit.I(sn.SuccessfulIterationDurations.Count), kit.I(sn.FailedIterationDurations.Count), kit.I(sn.DroppedIterationCount),
			"T", kit.I(iter["success"]), kit.I(iter["fail"]), kit.I(iter["dropped"])}, "T", tags...)
	}
}

// ---------------------------------------------------------------- a mark arriving after the iteration ended

// Something an iteration left behind (a watchdog goroutine, a callback) marks its T after the
// iteration has ended, while the worker waits for the next tick: the next iteration on that
// worker still starts clean and is reported by its own outcome.
func TestC07LateMark(t *testing.T) {
	o := kit.Get()
	defer o.Close()
	r := kit.NewRand(kit.Seed() + 71)
	for i := 0; i < kit.N(6, 60); i++ {
		stats := &progress.Stats{}
		var handles []*f1testing.T
		var dirty atomic.Int64
		var mu sync.Mutex
		sc := &scenarios.Scenario{Name: "c07late", ScenarioFn: func(*f1testing.T) f1testing.RunFn {
			return func(t *f1testing.T) {
				if t.Failed() {
					dirty.Add(1)
				}
				mu.Lock()
				handles = append(handles, t)
				mu.Unlock()
			}
		}}
		as := workers.NewActiveScenario(sc, runkit.NewMetrics(nil, false), stats, log.NewDiscardLogger(), logrus.New())
		as.Setup()
		m := workers.New(0, as)
		pool := m.NewTriggerPool(1)
		ctx, cancel := context.WithCancel(context.Background())
		wctx := pool.Start(ctx)
		rounds := int(r.Range(2, 5))
		for k := 0; k < rounds; k++ {
			pool.Trigger(wctx, 1)
			deadline := time.Now().Add(5 * time.Second)
			for int(stats.Total().SuccessfulIterationDurations.Count+stats.Total().FailedIterationDurations.Count) < k+1 && time.Now().Before(deadline) {
				time.Sleep(200 * time.Microsecond)
			}
			time.Sleep(time.Duration(r.Range(0, 2)) * time.Millisecond) // the worker is parked again
			mu.Lock()
			if len(handles) > 0 {
				switch r.Intn(3) { // what the iteration left behind fires now
				case 0:
					handles[len(handles)-1].Fail()
				case 1:
					handles[len(handles)-1].Errorf("late %d", k)
				default:
				}
			}
			mu.Unlock()
		}
		cancel()
		select {
		case <-m.WaitForCompletion():
		case <-time.After(10 * time.Second):
			o.Fail("c07-pool-not-complete", "the pool did not complete after cancel")
			continue
		}
		tot := stats.Total()
		if dirty.Load() > 0 {
			o.Fail("dirty-handle", fmt.Sprintf("%d iteration(s) started with T.Failed() already true: a failure marked after the previous iteration on that worker had ended was carried over", dirty.Load()))
		}
		// every body passed: every iteration is reported successful
		o.Case("c01_ok", []string{kit.I(rounds), "0", "0", kit.I(tot.SuccessfulIterationDurations.Count), kit.I(tot.FailedIterationDurations.Count), "0",
			"F", "0", "0", "0"}, "T", "late-mark", "nt")
	}
}

// ---------------------------------------------------------------- failures reported from several goroutines at once

// The reporting methods of T may be called from several goroutines at the same time (helpers the
// body started and waits for): an iteration in which two, three or four helpers report a failure
// at the same instant is a failed iteration, every time.
func TestC07ConcurrentMarks(t *testing.T) {
	o := kit.Get()
	defer o.Close()
	r := kit.NewRand(kit.Seed() + 72)
	for rep := 0; rep < kit.N(3, 12); rep++ {
		helpers := int(kit.Pick(r, 2, 2, 3, 4))
		how := r.Intn(3)
		iters := kit.N(6000, 60000)
		stats := &progress.Stats{}
		sc := &scenarios.Scenario{Name: "c07conc", ScenarioFn: func(*f1testing.T) f1testing.RunFn {
			return func(t *f1testing.T) {
				var ready, wg sync.WaitGroup
				var gate atomic.Bool
				ready.Add(helpers)
				wg.Add(helpers)
				for h := 0; h < helpers; h++ {
					go func() {
						defer wg.Done()
						ready.Done()
						for !gate.Load() {
						}
						switch how {
						case 0:
							t.Fail()
						case 1:
							t.Errorf("helper failed")
						default:
							t.Error(errors.New("helper failed"))
						}
					}()
				}
				ready.Wait()
				gate.Store(true)
				wg.Wait()
			}
		}}
		as := workers.NewActiveScenario(sc, runkit.NewMetrics(nil, false), stats, log.NewDiscardLogger(), logrus.New())
		as.Setup()
		m := workers.New(uint64(iters), as)
		pool := m.NewContinuousPool(2)
		ctx, cancel := context.WithCancel(context.Background())
		pool.Start(ctx)
		select {
		case <-m.WaitForCompletion():
		case <-time.After(120 * time.Second):
			cancel()
			o.Fail("c07-pool-not-complete", "the users pool did not reach its limit")
			continue
		}
		cancel()
		tot := stats.Total()
		if tot.SuccessfulIterationDurations.Count > 0 {
			o.Fail("concurrent-failure-lost", fmt.Sprintf("%d iterations in each of which %d helper goroutines reported a failure at the same instant (way %d): %d of them were reported successful",
				iters, helpers, how, tot.SuccessfulIterationDurations.Count))
		}
		o.Count("concurrent-marks", fmt.Sprintf("%d helpers", helpers))
		o.Case("c01_ok", []string{"0", kit.I(iters), "0", kit.I(tot.SuccessfulIterationDurations.Count), kit.I(tot.FailedIterationDurations.Count), "0",
			"F", "0", "0", "0"}, "T", "concurrent-mark", "nt")
	}
}
