//go:build verif

package c10

import (
	"fmt"
	"math"
	"math/big"
	"strings"
	"testing"
	"time"

	"github.com/form3tech-oss/f1/v2/internal/options"
	"github.com/form3tech-oss/f1/v2/internal/trigger/ramp"
	"github.com/form3tech-oss/f1/v2/internal/trigger/staged"
	"github.com/form3tech-oss/f1/v2/internal/ui"
	"github.com/form3tech-oss/f1/v2/internal/verifh/kit"
	"github.com/form3tech-oss/f1/v2/internal/verifh/runkit"
)

const base = int64(1_700_000_000_000_000_000)

type scase struct {
	stages [][2]int64 // duration ns, target
	start  *int64
	ts     []int64
	direct bool // drive staged.RateCalculator directly
}

func (c scase) args() []string {
	items := make([]string, len(c.stages))
	for i, s := range c.stages {
		items[i] = kit.List(kit.I(s[0]), kit.I(s[1]))
	}
	st := "[]"
	if c.start != nil {
		st = kit.List(kit.I(*c.start))
	}
	return []string{kit.List(items...), st, kit.Ints(c.ts)}
}

// problems seen by runStaged outside the compared value: the caller's start-time argument must
// not be modified, and a second profile built from the same start variable yields the same values
var stagedProblems []string

func runStaged(c scase) string {
	parts := make([]string, len(c.stages))
	for i, s := range c.stages {
		parts[i] = fmt.Sprintf("%s:%d", time.Duration(s[0]).String(), s[1])
	}
	var outs []int64
	var total time.Duration
	var err error
	crashed, _ := kit.Guard(func() {
		var st *time.Time
		if c.start != nil {
			t := time.Unix(0, *c.start)
			st = &t
		}
		if c.direct {
			// the calculator itself, as CalculateStagedRate builds it; its total duration is read
			// after the queries (and must still be the sum of all stage durations)
			stages, e := staged.ParseStages(strings.Join(parts, ","))
			if e != nil {
				err = e
				return
			}
			calc := staged.NewRateCalculator(stages, st)
			before := calc.MaxDuration()
			for _, t := range c.ts {
				outs = append(outs, int64(calc.Rate(time.Unix(0, t))))
			}
			total = calc.MaxDuration()
			if before != total {
				total = -1 - total // not the same before and after the queries: never equal to the model's sum
			}
			if st != nil {
				if !st.Equal(time.Unix(0, *c.start)) {
					stagedProblems = append(stagedProblems, fmt.Sprintf("start-argument-modified\tNewRateCalculator(%s, start=%d).Rate moved the caller's start variable to %d", strings.Join(parts, ","), *c.start, st.UnixNano()))
				}
				calc2 := staged.NewRateCalculator(stages, st)
				for i, t := range c.ts {
					if v := int64(calc2.Rate(time.Unix(0, t))); v != outs[i] {
						stagedProblems = append(stagedProblems, fmt.Sprintf("second-profile-differs\ta second calculator built from the same start variable (%s, start=%d) yields %d at query %d (t=%d) where the first yielded %d", strings.Join(parts, ","), *c.start, v, i, t, outs[i]))
						break
					}
				}
			}
			return
		}
		var rates, e = staged.CalculateStagedRate(0, time.Second, strings.Join(parts, ","), "none", st)
		if e != nil {
			err = e
			return
		}
		total = rates.Duration
		for _, t := range c.ts {
			outs = append(outs, int64(rates.Rate(time.Unix(0, t))))
		}
		if st != nil {
			if !st.Equal(time.Unix(0, *c.start)) {
				stagedProblems = append(stagedProblems, fmt.Sprintf("start-argument-modified\tCalculateStagedRate(%s, start=%d) moved the caller's start variable to %d", strings.Join(parts, ","), *c.start, st.UnixNano()))
			}
			if rates2, e2 := staged.CalculateStagedRate(0, time.Second, strings.Join(parts, ","), "none", st); e2 == nil {
				for i, t := range c.ts {
					if v := int64(rates2.Rate(time.Unix(0, t))); v != outs[i] {
						stagedProblems = append(stagedProblems, fmt.Sprintf("second-profile-differs\ta second CalculateStagedRate from the same start variable (%s, start=%d) yields %d at query %d (t=%d) where the first yielded %d", strings.Join(parts, ","), *c.start, v, i, t, outs[i]))
						break
					}
				}
			}
		}
	})
	return kit.Res(crashed, err, kit.List(kit.Ints(outs), kit.I(int64(total))))
}

// Two profiles alive at the same time, queried in turn (a chart next to a run, the stages of a
// config file): each answers from its own stages, start and query times alone.
func runStagedPair(a, b scase) (string, string) {
	type inst struct {
		rate  func(time.Time) int
		calc  *staged.RateCalculator
		total time.Duration
		outs  []int64
		err   error
		crash bool
	}
	build := func(c scase) *inst {
		in := &inst{}
		parts := make([]string, len(c.stages))
		for i, s := range c.stages {
			parts[i] = fmt.Sprintf("%s:%d", time.Duration(s[0]).String(), s[1])
		}
		in.crash, _ = kit.Guard(func() {
			var st *time.Time
			if c.start != nil {
				t := time.Unix(0, *c.start)
				st = &t
			}
			if c.direct {
				stages, e := staged.ParseStages(strings.Join(parts, ","))
				if e != nil {
					in.err = e
					return
				}
				in.calc = staged.NewRateCalculator(stages, st)
				in.rate = in.calc.Rate
				return
			}
			rates, e := staged.CalculateStagedRate(0, time.Second, strings.Join(parts, ","), "none", st)
			if e != nil {
				in.err = e
				return
			}
			in.total = rates.Duration
			in.rate = rates.Rate
		})
		return in
	}
	ia, ib := build(a), build(b)
	for k := 0; k < max(len(a.ts), len(b.ts)); k++ {
		for _, pr := range []struct {
			in *inst
			c  scase
		}{{ia, a}, {ib, b}} {
			if k < len(pr.c.ts) && pr.in.rate != nil && !pr.in.crash {
				in, t := pr.in, pr.c.ts[k]
				crashed, _ := kit.Guard(func() { in.outs = append(in.outs, int64(in.rate(time.Unix(0, t)))) })
				in.crash = in.crash || crashed
			}
		}
	}
	res := func(in *inst) string {
		if in.calc != nil && !in.crash {
			in.total = in.calc.MaxDuration()
		}
		return kit.Res(in.crash, in.err, kit.List(kit.Ints(in.outs), kit.I(int64(in.total))))
	}
	return res(ia), res(ib)
}

func runRampPair(a, b rcase) (string, string) {
	type inst struct {
		rate  func(time.Time) int
		outs  []int64
		err   error
		crash bool
	}
	build := func(c rcase) *inst {
		in := &inst{}
		in.crash, _ = kit.Guard(func() {
			rates, e := ramp.CalculateRampRate(fmt.Sprintf("%d/1s", c.from), fmt.Sprintf("%d/1s", c.to), "none", time.Duration(c.dur), 0)
			if e != nil {
				in.err = e
				return
			}
			in.rate = rates.Rate
		})
		return in
	}
	ia, ib := build(a), build(b)
	for k := 0; k < max(len(a.ts), len(b.ts)); k++ {
		for _, pr := range []struct {
			in *inst
			c  rcase
		}{{ia, a}, {ib, b}} {
			if k < len(pr.c.ts) && pr.in.rate != nil && !pr.in.crash {
				in, t := pr.in, pr.c.ts[k]
				crashed, _ := kit.Guard(func() { in.outs = append(in.outs, int64(in.rate(time.Unix(0, t)))) })
				in.crash = in.crash || crashed
			}
		}
	}
	res := func(in *inst) string { return kit.Res(in.crash, in.err, kit.Ints(in.outs)) }
	return res(ia), res(ib)
}

func genDur(r *kit.Rand) int64 {
	switch r.Intn(9) {
	case 0:
		return 0
	case 4:
		return r.Range(1, 100) * 3_600_000_000_000 // hours: long soak stages
	case 1:
		return kit.Pick(r, int64(1), 2, 1000, 1_000_000)
	case 2:
		return r.Range(1, 3_600) * 1_000_000_000
	case 3:
		return r.Range(1, 1_000_000_000_000)
	default:
		return r.Range(1, 120) * kit.Pick(r, int64(1_000_000), 100_000_000, 1_000_000_000)
	}
}

func genStaged(r *kit.Rand) scase {
	var c scase
	n := int(r.Range(1, 8))
	maxT := kit.Pick(r, int64(10), 100, 1000, 1_000_000, 50_000_000, 2_000_000_000)
	var total int64
	for i := 0; i < n; i++ {
		d := genDur(r)
		total += d
		c.stages = append(c.stages, [2]int64{d, r.Range(0, maxT)})
	}
	t0 := base + r.Range(0, 1_000_000_000)
	if r.Chance(25) {
		// a profile planned ahead: its start time is still in the (real) future when it is queried
		// on synthetic timestamps; the profile is a function of the query times, not of the wall clock
		t0 = time.Now().UnixNano() + r.Range(3_600, 100_000_000)*1_000_000_000
	}
	if r.Chance(40) {
		s := t0
		c.start = &s
	}
	c.direct = r.Chance(40)
	// non-decreasing query times from the start: boundaries +-1ns, inside, beyond
	var cand []int64
	cum := int64(0)
	for _, s := range c.stages {
		cand = append(cand, cum-1, cum, cum+1, cum+s[0]/2, cum+s[0]/3)
		cum += s[0]
	}
	cand = append(cand, cum-1, cum, cum+1, cum+1_000_000_000, 2*cum+5)
	k := int(r.Range(5, 60))
	var offs []int64
	for i := 0; i < k; i++ {
		if r.Chance(50) {
			offs = append(offs, cand[r.Intn(len(cand))])
		} else {
			offs = append(offs, r.Range(0, total+total/4+10))
		}
	}
	// sort, clamp at 0
	for i := range offs {
		if offs[i] < 0 {
			offs[i] = 0
		}
	}
	sortI64(offs)
	if c.start == nil {
		// the first query fixes the start
		offs[0] = 0
	}
	for _, o := range offs {
		c.ts = append(c.ts, t0+o)
	}
	return c
}

func sortI64(a []int64) {
	for i := 1; i < len(a); i++ {
		for j := i; j > 0 && a[j-1] > a[j]; j-- {
			a[j-1], a[j] = a[j], a[j-1]
		}
	}
}

type rcase struct {
	from, to, dur int64
	ts            []int64
}

func runRamp(c rcase) string {
	var outs []int64
	var err error
	crashed, _ := kit.Guard(func() {
		rates, e := ramp.CalculateRampRate(fmt.Sprintf("%d/1s", c.from), fmt.Sprintf("%d/1s", c.to), "none", time.Duration(c.dur), 0)
		if e != nil {
			err = e
			return
		}
		for _, t := range c.ts {
			outs = append(outs, int64(rates.Rate(time.Unix(0, t))))
		}
	})
	return kit.Res(crashed, err, kit.Ints(outs))
}

// runStagedBuilder builds the staged profile the way `f1 run staged` does, through the builder's
// flag set (no --startTime: the profile starts at its first query).
func runStagedBuilder(c scase) string {
	parts := make([]string, len(c.stages))
	for i, s := range c.stages {
		parts[i] = fmt.Sprintf("%s:%d", time.Duration(s[0]).String(), s[1])
	}
	var outs []int64
	var total time.Duration
	var err error
	crashed, _ := kit.Guard(func() {
		cfg := runkit.Config{Mode: "staged", Flags: map[string]string{"stages": strings.Join(parts, ","), "iterationFrequency": "1s", "distribution": "none", "jitter": "0"},
			Opts: options.RunOptions{MaxDuration: time.Second}}
		trig, e := runkit.BuildTrigger(&cfg, ui.NewDiscardOutput())
		if e != nil {
			err = e
			return
		}
		total = trig.Duration
		for _, t := range c.ts {
			outs = append(outs, int64(trig.DryRun(time.Unix(0, t))))
		}
	})
	return kit.Res(crashed, err, kit.List(kit.Ints(outs), kit.I(int64(total))))
}

// runRampBuilder builds the ramp the way `f1 run ramp` does - through the builder's flag set, next
// to a --max-duration that may be shorter than, equal to or longer than --ramp-duration - and
// samples the trigger's rate function: the ramp is the line over the configured ramp duration,
// whatever the run's duration (the run cuts it off, it does not reshape it).
func runRampBuilder(c rcase, maxD time.Duration) string {
	var outs []int64
	var err error
	crashed, _ := kit.Guard(func() {
		cfg := runkit.Config{Mode: "ramp", Flags: map[string]string{"start-rate": fmt.Sprintf("%d/1s", c.from), "end-rate": fmt.Sprintf("%d/1s", c.to),
			"ramp-duration": time.Duration(c.dur).String(), "distribution": "none", "jitter": "0"}, Opts: options.RunOptions{MaxDuration: maxD}}
		trig, e := runkit.BuildTrigger(&cfg, ui.NewDiscardOutput())
		if e != nil {
			err = e
			return
		}
		for _, t := range c.ts {
			outs = append(outs, int64(trig.DryRun(time.Unix(0, t))))
		}
	})
	return kit.Res(crashed, err, kit.Ints(outs))
}

func genRamp(r *kit.Rand) rcase {
	var c rcase
	maxT := kit.Pick(r, int64(10), 100, 1000, 1_000_000, 50_000_000, 2_000_000_000)
	c.from = r.Range(0, maxT)
	c.to = r.Range(0, maxT)
	if c.from == c.to {
		c.to = c.from + 1
	}
	c.dur = kit.Pick(r, r.Range(1, 600)*1_000_000_000, r.Range(1_000_000_000, 1_000_000_000_000))
	t0 := base + r.Range(0, 1_000_000_000)
	k := int(r.Range(3, 40))
	offs := []int64{0}
	for i := 0; i < k; i++ {
		switch r.Intn(4) {
		case 0:
			offs = append(offs, kit.Pick(r, c.dur-1, c.dur, c.dur+1, c.dur/2, 1))
		default:
			offs = append(offs, r.Range(0, c.dur+c.dur/5))
		}
	}
	sortI64(offs)
	for _, o := range offs {
		c.ts = append(c.ts, t0+o)
	}
	return c
}

// Witness of the recorded finding: read literally, "within 1 of the exact value" is exceeded
// by the binary64 evaluation by 49/7200000000000 on this input (C10_within_one_refuted); the
// excess is bounded by C10_close, and anything beyond that bound is still reported.
func knownFindingWitness(o *kit.Out) {
	const dur, target, off = int64(7_200_000_000_000), int64(1_293_707), int64(4_936_467_376_307)
	t0 := time.Unix(0, base)
	rates, err := staged.CalculateStagedRate(0, time.Second, fmt.Sprintf("%s:%d", time.Duration(dur), target), "none", &t0)
	if err != nil {
		o.Fail("c10-witness-error", "the witness profile was rejected: "+err.Error())
		return
	}
	v := int64(rates.Rate(time.Unix(0, base+off)))
	// |v*dur - off*target| > dur  <=>  |v - exact| > 1
	lhs := new(big.Int).Sub(new(big.Int).Mul(big.NewInt(v), big.NewInt(dur)), new(big.Int).Mul(big.NewInt(off), big.NewInt(target)))
	if lhs.Abs(lhs).Cmp(big.NewInt(dur)) > 0 {
		o.Fail("within-one-exceeded-by-float-epsilon", fmt.Sprintf("staged profile 2h0m0s:%d queried %dns after its start yields %d; the exact interpolation is 886992+49/7200000000000, more than 1 away", target, off, v))
	}
}

func TestC10(t *testing.T) {
	o := kit.Get()
	defer o.Close()
	r := kit.NewRand(kit.Seed())
	knownFindingWitness(o)

	n := kit.N(1200, 15000)
	for i := 0; i < n; i++ {
		c := genStaged(r)
		tags := []string{"staged"}
		zero, down := false, false
		prev := int64(0)
		for _, s := range c.stages {
			if s[0] == 0 {
				zero = true
			}
			if s[1] < prev {
				down = true
			}
			prev = s[1]
		}
		if len(c.stages) >= 2 {
			tags = append(tags, "nt")
		}
		if zero {
			o.Count("staged", "has-zero-length-stage")
		}
		if down {
			o.Count("staged", "has-descending-stage")
		}
		o.Count("stages", kit.I(len(c.stages)))
		o.Case("staged", c.args(), runStaged(c), tags...)
		for k, p := range stagedProblems {
			if k < 2 {
				kv := strings.SplitN(p, "\t", 2)
				o.Fail(kv[0], kv[1])
			}
		}
		stagedProblems = nil
	}
	n = kit.N(600, 8000)
	for i := 0; i < n; i++ {
		c := genRamp(r)
		o.Case("ramp", []string{kit.I(c.from), kit.I(c.to), kit.I(c.dur), kit.Ints(c.ts)}, runRamp(c), "ramp", "nt")
	}
	for i := 0; i < kit.N(150, 2000); i++ {
		a, b := genStaged(r), genStaged(r)
		if i%3 == 0 {
			b.stages, b.direct = a.stages, a.direct // the same stages, other start / query times
		}
		ra, rb := runStagedPair(a, b)
		o.Case("staged", a.args(), ra, "staged", "pair", "nt")
		o.Case("staged", b.args(), rb, "staged", "pair", "nt")
		x, y := genRamp(r), genRamp(r)
		if i%3 == 0 {
			y.from, y.to, y.dur = x.from, x.to, x.dur
		}
		rx, ry := runRampPair(x, y)
		o.Case("ramp", []string{kit.I(x.from), kit.I(x.to), kit.I(x.dur), kit.Ints(x.ts)}, rx, "ramp", "pair", "nt")
		o.Case("ramp", []string{kit.I(y.from), kit.I(y.to), kit.I(y.dur), kit.Ints(y.ts)}, ry, "ramp", "pair", "nt")
	}
	for i := 0; i < kit.N(200, 3000); i++ {
		c := genRamp(r)
		if c.dur < 1_000_000 {
			continue // a ramp duration of zero means "the run's duration" on the command line
		}
		maxD := []time.Duration{time.Second, time.Duration(c.dur) / 2, time.Duration(c.dur), 2 * time.Duration(c.dur), time.Duration(c.dur) - time.Millisecond}[i%5]
		if maxD <= 0 {
			maxD = time.Second
		}
		o.Case("ramp", []string{kit.I(c.from), kit.I(c.to), kit.I(c.dur), kit.Ints(c.ts)}, runRampBuilder(c, maxD), "ramp", "builder", "nt")
	}
	for i := 0; i < kit.N(200, 3000); i++ {
		c := genStaged(r)
		c.start, c.direct = nil, false
		o.Case("staged", c.args(), runStagedBuilder(c), "staged", "builder", "nt")
	}
	o.Count("staged", "built through the command's flag set")
	o.Count("ramp", "built through the command's flag set next to --max-duration")
	o.Count("instances", "pairs alive at once, queried in turn")
}

// ---------------------------------------------------------------- f64 primitives

func bits(f float64) uint64 {
	if f != f {
		return 0x7FF8000000000001
	}
	return math.Float64bits(f)
}

func genFloat(r *kit.Rand) float64 {
	switch r.Intn(10) {
	case 0:
		return kit.Pick(r, 0.0, math.Copysign(0, -1), 1, -1, 0.5, -0.5, 2.5, -2.5, 1e7, math.Inf(1), math.Inf(-1), math.NaN(), 4503599627370496.5, 9.223372036854775807e18, -9.223372036854775808e18, 1e300, 5e-324)
	case 1, 2:
		return math.Float64frombits(r.U64())
	case 3, 4:
		return float64(r.Range(-1000, 1000)) / float64(r.Range(1, 100))
	case 5:
		return float64(r.Range(-1<<53, 1<<53))
	case 6:
		return float64(r.Range(0, 1<<20)) + 0.5
	default:
		return float64(r.Range(-1_000_000, 1_000_000)) * math.Pow(2, float64(r.Range(-60, 60)))
	}
}

func toInt(f float64) int64 { return int64(f) }

func TestF64(t *testing.T) {
	o := kit.Get()
	defer o.Close()
	r := kit.NewRand(kit.Seed() + 77)
	n := kit.N(6000, 100000)
	for i := 0; i < n; i++ {
		a, b := genFloat(r), genFloat(r)
		ab, bb := kit.I(bits(a)), kit.I(bits(b))
		switch r.Intn(13) {
		case 0:
			o.Case("f64_add", []string{ab, bb}, kit.I(bits(a+b)), "nt")
		case 1:
			o.Case("f64_sub", []string{ab, bb}, kit.I(bits(a-b)), "nt")
		case 2:
			o.Case("f64_mul", []string{ab, bb}, kit.I(bits(a*b)), "nt")
		case 3:
			o.Case("f64_div", []string{ab, bb}, kit.I(bits(a/b)), "nt")
		case 4:
			o.Case("f64_floor", []string{ab}, kit.I(bits(math.Floor(a))), "nt")
		case 5:
			o.Case("f64_ceil", []string{ab}, kit.I(bits(math.Ceil(a))), "nt")
		case 6:
			o.Case("f64_round", []string{ab}, kit.I(bits(math.Round(a))), "nt")
		case 7:
			o.Case("f64_trunc", []string{ab}, kit.I(bits(math.Trunc(a))), "nt")
		case 8:
			o.Case("f64_toint", []string{ab}, kit.I(toInt(a)), "nt")
		case 9:
			o.Case("f64_max", []string{ab, bb}, kit.I(bits(math.Max(a, b))), "nt")
		case 10:
			o.Case("f64_lt", []string{ab, bb}, kit.B(a < b), "nt")
		case 11:
			z := int64(r.U64())
			if r.Bool() {
				z = r.Range(-1<<54, 1<<54)
			}
			o.Case("f64_ofint", []string{kit.I(z)}, kit.I(bits(float64(z))), "nt")
		case 12:
			o.Case("f64_le", []string{ab, bb}, kit.B(a <= b), "nt")
		}
	}
}
