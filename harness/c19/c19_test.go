//go:build verif

package c19

import (
	"bytes"
	"context"
	"encoding/json"
	"errors"
	"fmt"
	"log/slog"
	"strings"
	"testing"
	"time"

	"github.com/form3tech-oss/f1/v2/internal/metrics"
	"github.com/form3tech-oss/f1/v2/internal/options"
	"github.com/form3tech-oss/f1/v2/internal/progress"
	"github.com/form3tech-oss/f1/v2/internal/run"
	"github.com/form3tech-oss/f1/v2/internal/run/views"
	"github.com/form3tech-oss/f1/v2/internal/verifh/kit"
)

func genDur(r *kit.Rand) int64 {
	switch r.Intn(10) {
	case 0:
		return 0
	case 1:
		return r.Range(1, 999)
	case 2:
		return r.Range(1000, 999_999)
	case 3:
		return r.Range(1_000_000, 999_999_999)
	case 4:
		return r.Range(1, 600) * 1_000_000_000
	case 5:
		return r.Range(1, 100) * 3_600_000_000_000
	case 6:
		return kit.Pick(r, int64(499_999_999), 500_000_000, 1_500_000_000, 59_500_000_000, 999_999_999, 1_000_000_001)
	case 7:
		return -r.Range(1, 5_000_000_000)
	default:
		return r.Range(0, 10_000_000_000_000)
	}
}

func genCount(r *kit.Rand) uint64 {
	switch r.Intn(6) {
	case 0:
		return 0
	case 1:
		return uint64(r.Range(1, 9))
	case 2:
		return uint64(r.Range(10, 99999))
	case 3:
		return uint64(r.Range(100000, 10_000_000))
	case 4:
		return uint64(r.Range(1, 1<<40))
	default:
		return uint64(r.Range(0, 1000))
	}
}

func genSnap(r *kit.Rand) progress.IterationDurationsSnapshot {
	return progress.IterationDurationsSnapshot{Average: time.Duration(genDur(r)), Count: genCount(r), Min: time.Duration(genDur(r)), Max: time.Duration(genDur(r))}
}

func encSnap(s progress.IterationDurationsSnapshot) string {
	return kit.List(kit.I(int64(s.Average)), kit.I(s.Count), kit.I(int64(s.Min)), kit.I(int64(s.Max)))
}

func logOf(f func(*slog.Logger)) map[string]any {
	var buf bytes.Buffer
	lg := slog.New(slog.NewJSONHandler(&buf, &slog.HandlerOptions{Level: slog.LevelDebug}))
	f(lg)
	m := map[string]any{}
	_ = json.Unmarshal(buf.Bytes(), &m)
	return m
}

// keepHandler keeps the records it is handed (as a batching or asynchronous handler given to
// F1.WithLogger does) instead of formatting them inside Handle: a record is what was logged for
// as long as somebody holds it.
type keepHandler struct{ recs *[]slog.Record }

func (h keepHandler) Enabled(context.Context, slog.Level) bool { return true }
func (h keepHandler) Handle(_ context.Context, r slog.Record) error {
	*h.recs = append(*h.recs, r.Clone())
	return nil
}
func (h keepHandler) WithAttrs([]slog.Attr) slog.Handler { return h }
func (h keepHandler) WithGroup(string) slog.Handler      { return h }

func formatRecord(rec slog.Record) map[string]any {
	var buf bytes.Buffer
	_ = slog.NewJSONHandler(&buf, &slog.HandlerOptions{Level: slog.LevelDebug}).Handle(context.Background(), rec)
	m := map[string]any{}
	_ = json.Unmarshal(buf.Bytes(), &m)
	return m
}

// a logged line whose record is formatted later, after further lines have been logged
type keptLine struct {
	pred string
	args []string
	rec  slog.Record
}

func flushKept(o *kit.Out, kept *[]keptLine) {
	for _, k := range *kept {
		m := formatRecord(k.rec)
		if k.pred == "log_progress" {
			o.Case(k.pred, k.args, kit.List(kit.Str(fmt.Sprint(m["msg"])), statsOf(m)), "log", "kept")
		} else {
			_, hasErr := m["error"]
			o.Case(k.pred, k.args, kit.List(kit.B(m["level"] == "ERROR"), kit.B(hasErr), statsOf(m)), "log", "kept")
		}
	}
	*kept = (*kept)[:0]
}

func keepLine(kept *[]keptLine, pred string, args []string, f func(*slog.Logger)) {
	var recs []slog.Record
	f(slog.New(keepHandler{&recs}))
	if len(recs) == 1 {
		*kept = append(*kept, keptLine{pred, args, recs[0]})
	}
}

func statsOf(m map[string]any) string {
	g, _ := m["iteration_stats"].(map[string]any)
	num := func(k string) string {
		v, _ := g[k].(float64)
		return kit.I(int64(v))
	}
	return kit.List(num("started"), num("successful"), num("failed"), num("dropped"), num("period"))
}

func TestC19(t *testing.T) {
	o := kit.Get()
	defer o.Close()
	r := kit.NewRand(kit.Seed() + 19)
	v := views.New()
	n := kit.N(1500, 25000)
	var kept []keptLine
	defer func() { flushKept(o, &kept) }()
	for i := 0; i < n; i++ {
		if len(kept) >= 12 {
			flushKept(o, &kept)
		}
		tty := r.Bool()
		switch r.Intn(5) {
		case 0, 1: // progress
			d := views.ProgressData{SuccessfulIterationDurationsForPeriod: genSnap(r), Duration: time.Duration(genDur(r)),
				SuccessfulIterationCount: genCount(r), DroppedIterationCount: kit.Pick(r, uint64(0), genCount(r)), FailedIterationCount: genCount(r),
				Period: time.Duration(kit.Pick(r, int64(0), 1_000_000_000, 10_000_000_000, 499_999_999, genDur(r)))}
			vc := v.Progress(d)
			var out string
			crashed, _ := kit.Guard(func() { out = vc.VerifRender(tty) })
			args := []string{kit.B(tty), encSnap(d.SuccessfulIterationDurationsForPeriod), kit.I(int64(d.Duration)), kit.I(d.SuccessfulIterationCount),
				kit.I(d.DroppedIterationCount), kit.I(d.FailedIterationCount), kit.I(int64(d.Period))}
			tags := []string{"progress", "nt"}
			o.Case("render_progress", args, kit.Res(crashed, nil, kit.Str(out)), tags...)
			if d.Period < (1<<53) && d.Period > -(1<<53) && d.SuccessfulIterationCount < 1<<50 {
				m := logOf(vc.Log)
				o.Case("log_progress", args[1:], kit.List(kit.Str(fmt.Sprint(m["msg"])), statsOf(m)), "log")
				if i%2 == 0 {
					keepLine(&kept, "log_progress", args[1:], vc.Log)
				}
			}
		case 2, 3: // result
			var e error
			if r.Chance(35) {
				e = errors.New(kit.Pick(r, "setup failed", "teardown failed", "Error 0: setup failed; Error 1: teardown failed", "", "x{{y}}", "weird ✘ error"))
			}
			succ, fail, drop := genCount(r), kit.Pick(r, uint64(0), genCount(r)), kit.Pick(r, uint64(0), genCount(r))
			iters := succ + fail + drop
			if r.Chance(10) {
				iters = kit.Pick(r, uint64(0), 1, iters+5) // hand-built data need not be consistent
			}
			d := views.ResultData{Error: e, LogFilePath: kit.Pick(r, "", "/tmp/f1-x.log", "a b"), SuccessfulIterationDurations: genSnap(r), FailedIterationDurations: genSnap(r),
				IterationsStarted: kit.Pick(r, succ+fail, succ+fail, 0), Duration: time.Duration(genDur(r)), SuccessfulIterationCount: succ, Iterations: iters,
				FailedIterationCount: fail, DroppedIterationCount: drop, Failed: r.Bool()}
			vc := v.Result(d)
			var out string
			crashed, _ := kit.Guard(func() { out = vc.VerifRender(tty) })
			eo := "[]"
			if e != nil {
				eo = kit.List(kit.Str(e.Error()))
			}
			args := []string{kit.B(tty), eo, kit.Str(d.LogFilePath), encSnap(d.SuccessfulIterationDurations), encSnap(d.FailedIterationDurations),
				kit.I(d.IterationsStarted), kit.I(int64(d.Duration)), kit.I(succ), kit.I(iters), kit.I(fail), kit.I(drop), kit.B(d.Failed)}
			o.Case("render_result", args, kit.Res(crashed, nil, kit.Str(out)), "result", "nt")
			if d.Duration < (1<<53) && d.Duration > -(1<<53) && succ < 1<<50 && fail < 1<<50 && drop < 1<<50 {
				m := logOf(vc.Log)
				_, hasErr := m["error"]
				o.Case("log_result", args[1:], kit.List(kit.B(m["level"] == "ERROR"), kit.B(hasErr), statsOf(m)), "log")
				if i%2 == 0 {
					keepLine(&kept, "log_result", args[1:], vc.Log)
				}
			}
		default: // exit / stage lines
			if r.Bool() {
				kind := r.Intn(3)
				d := genDur(r)
				var out string
				crashed, _ := kit.Guard(func() {
					switch kind {
					case 0:
						out = v.Timeout(views.TimeoutData{Duration: time.Duration(d)}).VerifRender(tty)
					case 1:
						out = v.MaxIterationsReached(views.MaxIterationsReachedData{Duration: time.Duration(d)}).VerifRender(tty)
					default:
						out = v.Interrupt(views.InterruptData{Duration: time.Duration(d)}).VerifRender(tty)
					}
				})
				o.Case("render_exit", []string{kit.B(tty), kit.I(kind), kit.I(d)}, kit.Res(crashed, nil, kit.Str(out)), "exit")
			} else {
				var e error
				eo := "[]"
				if r.Bool() {
					e = errors.New(kit.Pick(r, "setup failed", "teardown failed", ""))
					eo = kit.List(kit.Str(e.Error()))
				}
				td := r.Bool()
				var out string
				crashed, _ := kit.Guard(func() {
					if td {
						out = v.Teardown(views.TeardownData{Error: e}).VerifRender(tty)
					} else {
						out = v.Setup(views.SetupData{Error: e}).VerifRender(tty)
					}
				})
				o.Case("render_stage", []string{kit.B(tty), kit.B(td), eo}, kit.Res(crashed, nil, kit.Str(out)), "stage")
			}
		}
	}
	// glue: Result.Summary()/Progress() built from a snapshot
	n = kit.N(300, 4000)
	for i := 0; i < n; i++ {
		succ, fail, drop := uint64(r.Range(0, 5000)), uint64(kit.Pick(r, int64(0), r.Range(0, 500))), uint64(kit.Pick(r, int64(0), r.Range(0, 50)))
		opts := options.RunOptions{IgnoreDropped: r.Bool(), MaxFailures: uint64(kit.Pick(r, 0, 0, 5)), MaxFailuresRate: kit.Pick(r, 0, 0, 10)}
		var errs []error
		if r.Chance(20) {
			errs = append(errs, errors.New("setup failed"))
		}
		ss, fs, ps := genSnap(r), genSnap(r), genSnap(r)
		ss.Count, fs.Count = succ, fail
		snap := progress.Snapshot{DroppedIterationCount: drop, SuccessfulIterationDurationsForPeriod: ps, SuccessfulIterationDurations: ss, FailedIterationDurations: fs,
			Period: time.Duration(kit.Pick(r, int64(1_000_000_000), 10_000_000_000))}
		res := run.VerifResultFrom(opts, errs, snap)
		res.LogFilePath = "/tmp/x.log"
		eo := "[]"
		if len(errs) > 0 {
			eo = kit.List(kit.Str("setup failed"))
		}
		if r.Chance(50) {
			// the life cycle of a real run: iterations are recorded, the totals are taken, then the
			// scenario teardown may still add an error before the summary is rendered
			succ, fail, drop = uint64(r.Range(0, 40)), uint64(kit.Pick(r, int64(0), r.Range(0, 6))), uint64(kit.Pick(r, int64(0), r.Range(0, 3)))
			res = run.VerifResultFrom(opts, errs, progress.Snapshot{})
			res.LogFilePath = "/tmp/x.log"
			st := res.VerifStats()
			for k := uint64(0); k < succ; k++ {
				st.Record(metrics.SuccessResult, int64(genDur(r)%1_000_000_000)+1)
			}
			for k := uint64(0); k < fail; k++ {
				st.Record(metrics.FailedResult, int64(genDur(r)%1_000_000_000)+1)
			}
			for k := uint64(0); k < drop; k++ {
				st.Record(metrics.DroppedResult, 0)
			}
			res.GetTotals()
			lateErr := r.Chance(40)
			if lateErr {
				res.AddError(errors.New("teardown failed"))
			}
			sn := res.Snapshot()
			ss, fs, ps = sn.SuccessfulIterationDurations, sn.FailedIterationDurations, sn.SuccessfulIterationDurationsForPeriod
			snap.Period = sn.Period
			// the error the summary is expected to show: the one error, or all of them numbered
			var texts []string
			if len(errs) > 0 {
				texts = append(texts, "setup failed")
			}
			if lateErr {
				texts = append(texts, "teardown failed")
			}
			switch len(texts) {
			case 0:
			case 1:
				eo = kit.List(kit.Str(texts[0]))
			default:
				parts := make([]string, len(texts))
				for k, tx := range texts {
					parts[k] = fmt.Sprintf("Error %d: %s", k, tx)
				}
				eo = kit.List(kit.Str(strings.Join(parts, "; ")))
				o.Count("glue", "result with two errors")
			}
			o.Count("glue", "recorded, totals, late error")
		} else {
			o.Count("glue", "snapshot set directly")
		}
		var sum, prog string
		crashed, _ := kit.Guard(func() { sum = res.Summary().VerifRender(false); prog = res.Progress().VerifRender(false) })
		o.Case("summary_glue", []string{eo, kit.Str("/tmp/x.log"), encSnap(ss), encSnap(fs), encSnap(ps), kit.I(succ), kit.I(fail), kit.I(drop),
			kit.B(opts.IgnoreDropped), kit.I(opts.MaxFailures), kit.I(opts.MaxFailuresRate), kit.I(int64(snap.Period))},
			kit.Res(crashed, nil, kit.List(kit.Str(sum), kit.Str(prog))), "glue", "nt")
	}
}
