//go:build verif

package workers

import (
	"github.com/form3tech-oss/f1/v2/pkg/f1/testing"
)

// VerifIterState gives the harness a per-worker iteration state as the pools build it.
type VerifIterState = iterationState

func (s *ActiveScenario) VerifNewIterationState() *VerifIterState { return s.newIterationState() }

func VerifStateT(st *VerifIterState) *testing.T { return st.t }

func (s *ActiveScenario) VerifSetupT() *testing.T { return s.t }

// VerifPending reads the pending-request counter of a trigger pool.
func (p *TriggerPool) VerifPending() int64 { return p.jobsToExecute.num.Load() }

// VerifStopped reports whether the pool has been told to stop.
func (p *TriggerPool) VerifStopped() bool { return p.stopWorkers.Load() }
