//go:build verif

package workers

import (
	"reflect"
	"unsafe"

	"github.com/form3tech-oss/f1/v2/pkg/f1/testing"
)

// The accessors find unexported fields by their TYPE, not by their name, so that a rename
// of an unexported identifier does not break the harness.

var verifTType = reflect.TypeOf((*testing.T)(nil))

// verifTField returns the first field of type *testing.T of the struct p points to.
func verifTField(p any) *testing.T {
	v := reflect.ValueOf(p).Elem()
	for i := 0; i < v.NumField(); i++ {
		if f := v.Field(i); f.Type() == verifTType {
			return (*testing.T)(unsafe.Pointer(f.Pointer()))
		}
	}
	panic("verif: no *testing.T field")
}

// VerifIterState gives the harness a per-worker iteration state as the pools build it.
type VerifIterState = iterationState

func (s *ActiveScenario) VerifNewIterationState() *VerifIterState { return s.newIterationState() }

func VerifStateT(st *VerifIterState) *testing.T { return verifTField(st) }

func (s *ActiveScenario) VerifSetupT() *testing.T { return verifTField(s) }
