//go:build verif

package file

import (
	"reflect"
	"strings"
	"time"
	"unsafe"
)

// The plan's fields are looked up by name, case-insensitively and through embedded structs, so
// that the accessor keeps building when a field is exported, unexported or moved into an
// embedded options struct; a field that cannot be found reads as -1 (never equal to the model's).
func verifField(r *RunnableStages, names ...string) (reflect.Value, bool) {
	rv := reflect.ValueOf(r).Elem()
	for _, want := range names {
		for _, f := range reflect.VisibleFields(rv.Type()) {
			if !strings.EqualFold(f.Name, want) {
				continue
			}
			fv := rv.FieldByIndex(f.Index)
			return reflect.NewAt(fv.Type(), unsafe.Pointer(fv.UnsafeAddr())).Elem(), true
		}
	}
	return reflect.Value{}, false
}

func verifInt(r *RunnableStages, names ...string) int64 {
	v, ok := verifField(r, names...)
	if !ok {
		return -1
	}
	switch v.Kind() {
	case reflect.Int, reflect.Int8, reflect.Int16, reflect.Int32, reflect.Int64:
		return v.Int()
	case reflect.Uint, reflect.Uint8, reflect.Uint16, reflect.Uint32, reflect.Uint64:
		return int64(v.Uint())
	}
	return -1
}

func (r *RunnableStages) VerifTotalDuration() time.Duration {
	return time.Duration(verifInt(r, "stagesTotalDuration", "totalDuration"))
}
func (r *RunnableStages) VerifMaxFailures() uint64  { return uint64(verifInt(r, "maxFailures")) }
func (r *RunnableStages) VerifMaxFailuresRate() int { return int(verifInt(r, "maxFailuresRate")) }
