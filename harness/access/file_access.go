//go:build verif

package file

import "time"

func (r *RunnableStages) VerifTotalDuration() time.Duration { return r.stagesTotalDuration }
func (r *RunnableStages) VerifMaxFailures() uint64          { return r.maxFailures }
func (r *RunnableStages) VerifMaxFailuresRate() int         { return r.maxFailuresRate }
