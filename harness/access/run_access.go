//go:build verif

package run

import (
	"reflect"
	"unsafe"

	"github.com/form3tech-oss/f1/v2/internal/options"
	"github.com/form3tech-oss/f1/v2/internal/progress"
	"github.com/form3tech-oss/f1/v2/internal/run/views"
)

// The accessors find unexported fields by their TYPE, not by their name, so that a rename
// of an unexported identifier does not break the harness.

func verifField(p any, t reflect.Type) reflect.Value {
	v := reflect.ValueOf(p).Elem()
	for i := 0; i < v.NumField(); i++ {
		if f := v.Field(i); f.Type() == t {
			return f
		}
	}
	panic("verif: no field of type " + t.String())
}

// VerifResultFrom builds a Result whose final snapshot and error list are
// given directly (read/write access to unexported fields for the harness).
func VerifResultFrom(opts options.RunOptions, errs []error, snap progress.Snapshot) *Result {
	r := NewResult(opts, views.New(), &progress.Stats{})
	for _, e := range errs {
		r.AddError(e)
	}
	f := verifField(r, reflect.TypeOf(progress.Snapshot{}))
	*(*progress.Snapshot)(unsafe.Pointer(f.UnsafeAddr())) = snap
	return r
}

// VerifStats exposes the progress statistics a Result reads from.
func (r *Result) VerifStats() *progress.Stats {
	return (*progress.Stats)(unsafe.Pointer(verifField(r, reflect.TypeOf((*progress.Stats)(nil))).Pointer()))
}

// VerifResult exposes the result of a Run while it is running.
func (r *Run) VerifResult() *Result {
	return (*Result)(unsafe.Pointer(verifField(r, reflect.TypeOf((*Result)(nil))).Pointer()))
}
