//go:build verif

package run

import (
	"github.com/form3tech-oss/f1/v2/internal/options"
	"github.com/form3tech-oss/f1/v2/internal/progress"
	"github.com/form3tech-oss/f1/v2/internal/run/views"
)

// VerifResultFrom builds a Result whose final snapshot and error list are
// given directly (read/write access to unexported fields for the harness).
func VerifResultFrom(opts options.RunOptions, errs []error, snap progress.Snapshot) *Result {
	r := NewResult(opts, views.New(), &progress.Stats{})
	for _, e := range errs {
		r.AddError(e)
	}
	r.snapshot = snap
	return r
}

// VerifStats exposes the progress statistics a Result reads from.
func (r *Result) VerifStats() *progress.Stats { return r.progressStats }

// VerifResult exposes the result of a Run while it is running.
func (r *Run) VerifResult() *Result { return r.result }
