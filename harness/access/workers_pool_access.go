//go:build verif

package workers

import (
	"reflect"
	"sync/atomic"
	"unsafe"
)

var verifInt64Type = reflect.TypeOf(atomic.Int64{})

// VerifPending reads the pending-request counter of a trigger pool: the one field of the pool
// that is (a struct holding) an atomic.Int64.
func (p *TriggerPool) VerifPending() int64 {
	v := reflect.ValueOf(p).Elem()
	for i := 0; i < v.NumField(); i++ {
		f := v.Field(i)
		if f.Type() == verifInt64Type {
			return (*atomic.Int64)(unsafe.Pointer(f.UnsafeAddr())).Load()
		}
		if f.Kind() == reflect.Struct {
			for k := 0; k < f.NumField(); k++ {
				if g := f.Field(k); g.Type() == verifInt64Type {
					return (*atomic.Int64)(unsafe.Pointer(g.UnsafeAddr())).Load()
				}
			}
		}
	}
	panic("verif: no pending-request counter in TriggerPool")
}
