//go:build verif

package views

// VerifRender renders with the tty (colours) or notty template, independently
// of what the real standard input is.
func (vc *ViewContext[T]) VerifRender(tty bool) string {
	if tty {
		return render(vc.view.tty, vc.data)
	}
	return render(vc.view.notty, vc.data)
}
