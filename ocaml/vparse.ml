(* Line-oriented value syntax shared by the Go harness and the driver:
     value ::= int | [value,value,...] | T | F
   no spaces inside a value; a case line is  cmd value value ...  *)
module S = Stdlib.String
module L = Stdlib.List
module A = Stdlib.Array
module H = Stdlib.Hashtbl
module B = Stdlib.Buffer
module C = Stdlib.Char
type ostring = string
open Model

type v = I of z | L of v list

let z_of_int (n : int) : z =
  let rec pos n = if n = 1 then XH else if n land 1 = 0 then XO (pos (n lsr 1)) else XI (pos (n lsr 1)) in
  if n = 0 then Z0 else if n > 0 then Zpos (pos n) else Zneg (pos (-n))

let ten = z_of_int 10

(* decimal ostring -> Z, any size *)
let z_of_string (s : ostring) : z =
  let neg = S.length s > 0 && s.[0] = '-' in
  let start = if neg || (S.length s > 0 && s.[0] = '+') then 1 else 0 in
  if S.length s - start <= 17 then z_of_int (int_of_string s)
  else begin
    let acc = ref Z0 in
    for i = start to S.length s - 1 do
      let d = C.code s.[i] - 48 in
      if d < 0 || d > 9 then failwith ("bad int " ^ s);
      acc := Z.add (Z.mul !acc ten) (z_of_int d)
    done;
    if neg then Z.opp !acc else !acc
  end

let rec pos_to_string_big (p : positive) : ostring =
  (* fall back: convert through repeated division is overkill; build a decimal
     by doubling a digit array *)
  let digits = ref [| 0 |] in
  let double_add bit =
    let carry = ref bit in
    let d = !digits in
    for i = 0 to A.length d - 1 do
      let x = d.(i) * 2 + !carry in
      d.(i) <- x mod 10; carry := x / 10
    done;
    if !carry > 0 then digits := A.append d [| !carry |] in
  let rec bits p acc = match p with
    | XH -> 1 :: acc | XO q -> bits q (0 :: acc) | XI q -> bits q (1 :: acc) in
  L.iter double_add (bits p []);
  let d = !digits in
  let b = B.create 32 in
  for i = A.length d - 1 downto 0 do B.add_char b (C.chr (48 + d.(i))) done;
  B.contents b

and pos_to_int_opt (p : positive) : int option =
  let rec go p depth = if depth > 61 then None else match p with
    | XH -> Some 1
    | XO q -> (match go q (depth + 1) with Some n -> Some (2 * n) | None -> None)
    | XI q -> (match go q (depth + 1) with Some n -> Some (2 * n + 1) | None -> None) in
  go p 0

let pos_to_string p = match pos_to_int_opt p with
  | Some n -> string_of_int n | None -> pos_to_string_big p

let z_to_string (x : z) : ostring = match x with
  | Z0 -> "0" | Zpos p -> pos_to_string p | Zneg p -> "-" ^ pos_to_string p

let z_to_int (x : z) : int = match x with
  | Z0 -> 0
  | Zpos p -> (match pos_to_int_opt p with Some n -> n | None -> failwith "z_to_int")
  | Zneg p -> (match pos_to_int_opt p with Some n -> -n | None -> failwith "z_to_int")

(* parser *)
let parse_value (s : ostring) : v =
  let n = S.length s in
  let i = ref 0 in
  let rec value () =
    if !i >= n then failwith ("eof in " ^ s);
    match s.[!i] with
    | '[' ->
      incr i;
      if !i < n && s.[!i] = ']' then (incr i; L [])
      else begin
        let items = ref [] in
        let continue = ref true in
        while !continue do
          items := value () :: !items;
          if !i < n && s.[!i] = ',' then incr i
          else if !i < n && s.[!i] = ']' then (incr i; continue := false)
          else failwith ("bad list in " ^ s)
        done;
        L (L.rev !items)
      end
    | 'T' -> incr i; I (z_of_int 1)
    | 'F' -> incr i; I Z0
    | _ ->
      let st = !i in
      while !i < n && (match s.[!i] with '0'..'9' | '-' | '+' -> true | _ -> false) do incr i done;
      if !i = st then failwith ("bad value in " ^ s);
      I (z_of_string (S.sub s st (!i - st)))
  in
  let r = value () in
  if !i <> n then failwith ("trailing in " ^ s);
  r

let zv = function I z -> z | L _ -> failwith "expected int"
let lv = function L l -> l | I _ -> failwith "expected list"
let bv x = match zv x with Z0 -> false | _ -> true
let zlist x = L.map zv (lv x)
let natv x = Z.to_nat (zv x)

let rec show = function
  | I z -> z_to_string z
  | L l -> "[" ^ S.concat "," (L.map show l) ^ "]"

let show_bool b = if b then "T" else "F"
let show_zlist l = "[" ^ S.concat "," (L.map z_to_string l) ^ "]"
let show_list f l = "[" ^ S.concat "," (L.map f l) ^ "]"

let show_res f = function
  | Ok a -> "ok " ^ f a
  | Err -> "err"
  | Crash -> "crash"

let s_of_ocaml (s : ostring) : z list = L.init (S.length s) (fun i -> z_of_int (C.code s.[i]))
