(* Per-property command handlers; filled in as the models grow. *)
open Model
open Vparse

let all : ((string -> (v list -> string) -> unit) -> unit) list ref = ref []
let section f = all := f :: !all


let dkind_of z = match z_to_int z with 0 -> DNone | 1 -> DRegular | 2 -> DRandom | _ -> DUnknown

let show_dist ((iv, outs), evals) = "[" ^ z_to_string iv ^ "," ^ show_zlist outs ^ "," ^ z_to_string evals ^ "]"

let register_c12 reg =
  reg "dist" (function
    | [k; iv; rates; rands; calls] ->
      show_res show_dist (dist_run (dkind_of (zv k)) (zv iv) (zlist rates) (zlist rands) (natv calls))
    | _ -> failwith "dist: arity");
  reg "dist_ok" (function
    | [k; iv; rates; rands; calls; L [iv'; outs; evals]] ->
      show_bool (dist_ok (dkind_of (zv k)) (zv iv) (zlist rates) (natv calls) (zv iv') (zlist outs) (zv evals))
    | _ -> failwith "dist_ok: arity")
let () = section register_c12
