(* Per-property command handlers; filled in as the models grow. *)
open Model
open Vparse

let register (reg : string -> (v list -> string) -> unit) : unit =
  ignore reg
