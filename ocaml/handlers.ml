(* Per-property command handlers; filled in as the models grow. *)
module S = Stdlib.String
module L = Stdlib.List
module A = Stdlib.Array
module H = Stdlib.Hashtbl
module B = Stdlib.Buffer
module C = Stdlib.Char
type ostring = string
open Model
open Vparse

let all : ((ostring -> (v list -> ostring) -> unit) -> unit) list ref = ref []
let section f = all := f :: !all


let dkind_of z = match z_to_int z with 0 -> DNone | 1 -> DRegular | 2 -> DRandom | _ -> DUnknown

let show_dist ((iv, outs), evals) = "[" ^ z_to_string iv ^ "," ^ show_zlist outs ^ "," ^ z_to_string evals ^ "]"

let register_c12 reg =
  reg "dist" (function
    | [k; iv; rates; rands; calls] ->
      show_res show_dist (dist_run (dkind_of (zv k)) (zv iv) (zlist rates) (zlist rands) (natv calls))
    | _ -> failwith "dist: arity");
  reg "dist_ok" (function
    | [k; iv; rates; rands; calls; L [iv'; outs; evals]] ->
      show_bool (dist_ok (dkind_of (zv k)) (zv iv) (zlist rates) (natv calls) (zv iv') (zlist outs) (zv evals))
    | _ -> failwith "dist_ok: arity")
let () = section register_c12

(* ---- C10 *)
let zpair = function L [a; b] -> (zv a, zv b) | _ -> failwith "pair"
let zopt = function L [] -> None | L [a] -> Some (zv a) | _ -> failwith "opt"

let register_c10 reg =
  reg "staged" (function
    | [stages; start; ts] ->
      let (outs, total) = staged_run (L.map zpair (lv stages)) (zopt start) (zlist ts) in
      "ok [" ^ show_zlist outs ^ "," ^ z_to_string total ^ "]"
    | _ -> failwith "staged: arity");
  reg "staged_ok" (function
    | [stages; start; ts; L [outs; total]] ->
      show_bool (staged_ok (L.map zpair (lv stages)) (zopt start) (zlist ts) (zlist outs) (zv total))
    | _ -> failwith "staged_ok: arity");
  reg "ramp" (function
    | [from; to_; dur; ts] -> "ok " ^ show_zlist (ramp_run_f64 (zv from) (zv to_) (zv dur) (zlist ts))
    | _ -> failwith "ramp: arity");
  reg "ramp_ok" (function
    | [from; to_; dur; ts; outs] -> show_bool (ramp_ok (zv from) (zv to_) (zv dur) (zlist ts) (zlist outs))
    | _ -> failwith "ramp_ok: arity")
let () = section register_c10

(* ---- f64 primitives *)
let fb x = f_of_bits (zv x)
let tb f = z_to_string (f_to_bits f)
let register_f64 reg =
  let bin name f = reg name (function [a; b] -> tb (f (fb a) (fb b)) | _ -> failwith name) in
  let un name f = reg name (function [a] -> tb (f (fb a)) | _ -> failwith name) in
  bin "f64_add" f_add; bin "f64_sub" f_sub; bin "f64_mul" f_mul; bin "f64_div" f_div;
  bin "f64_max" f_max;
  un "f64_floor" f_floor; un "f64_ceil" f_ceil; un "f64_round" f_round; un "f64_trunc" f_trunc;
  reg "f64_toint" (function [a] -> z_to_string (f_to_int (fb a)) | _ -> failwith "toint");
  reg "f64_ofint" (function [a] -> tb (f_of_Z (zv a)) | _ -> failwith "ofint");
  reg "f64_lt" (function [a; b] -> show_bool (f_lt (fb a) (fb b)) | _ -> failwith "lt");
  reg "f64_le" (function [a; b] -> show_bool (f_le (fb a) (fb b)) | _ -> failwith "le")
let () = section register_f64

(* ---- C13 *)
let register_c13 reg =
  reg "jitter" (function
    | [m; rates; cs] -> "ok " ^ show_zlist (jit_run_f64 (zv m) (zlist rates) (zlist cs))
    | _ -> failwith "jitter: arity");
  reg "jitter_ok" (function
    | [m; rates; cs; outs] -> show_bool (jit_ok (zv m) (zlist rates) (zlist outs))
    | _ -> failwith "jitter_ok: arity");
  reg "composed_bound_ok" (function
    | [jn; jd; rr; md] -> show_bool (composed_bound_ok (zv jn) (zv jd) (zv rr) (zv md))
    | _ -> failwith "composed_bound_ok: arity")
let () = section register_c13

(* ---- C17 / C01 *)
let outcome_of z = match z_to_int z with 0 -> OSucc | 1 -> OFail | 2 -> ODrop | _ -> OUnknown
let sop_of = function
  | L [I t; o; ns] when z_to_int t = 0 -> SRecord (outcome_of (zv o), zv ns)
  | L [I t] when z_to_int t = 1 -> SSnapshot
  | L [I t] when z_to_int t = 2 -> STotal
  | _ -> failwith "sop"
let show_q (((a, c), mn), mx) = "[" ^ S.concat "," (L.map z_to_string [a; c; mn; mx]) ^ "]"
let show_snap (((d, p), ls), lf) = "[" ^ z_to_string d ^ "," ^ show_q p ^ "," ^ show_q ls ^ "," ^ show_q lf ^ "]"
let register_c17 reg =
  reg "stats_run" (function
    | [ops] -> "ok " ^ show_list show_snap (stats_run stats0 (L.map sop_of (lv ops)))
    | _ -> failwith "stats_run: arity");
  reg "c01_ok" (function
    | [ns; nf; nd; ts; tf; td; mon; ms; mf; md] ->
      show_bool (c01_ok (zv ns) (zv nf) (zv nd) (zv ts) (zv tf) (zv td) (bv mon) (zv ms) (zv mf) (zv md))
    | _ -> failwith "c01_ok: arity")
let () = section register_c17

(* ---- C06 / C07 / C20 *)
let act_of = function
  | L [I k; a] -> (match z_to_int k with 0 -> ARegister (natv a) | 5 -> AMark (natv a) | _ -> failwith "act2")
  | L [I k] -> (match z_to_int k with 1 -> AFail | 2 -> AFailNow | 3 -> APanicErr | 4 -> APanicVal | _ -> failwith "act1")
  | _ -> failwith "act"
let acts_of v = L.map act_of (lv v)
let tab_of v = let t = A.of_list (L.map acts_of (lv v)) in
  fun c -> let i = z_to_int (Z.of_nat c) in if i < A.length t then t.(i) else []
let show_bools l = show_list show_bool l
let register_c06 reg =
  reg "worker_obs" (function
    | [tab; bodies] -> let (es, fs) = worker_obs (tab_of tab) (L.map acts_of (lv bodies)) in
      "ok [" ^ show_zlist es ^ "," ^ show_bools fs ^ "]"
    | _ -> failwith "worker_obs: arity");
  reg "cleanups_once_ok" (function [a; b; c] -> show_bool (cleanups_once_ok (zlist a) (zlist b) (zv c)) | _ -> failwith "arity");
  reg "measured_ok" (function [a; b; c] -> show_bool (measured_ok (zv a) (zv b) (zv c)) | _ -> failwith "arity");
  reg "run_obs" (function
    | [tab; setup] -> let ((es, it), f) = run_obs (tab_of tab) (acts_of setup) in
      "ok [" ^ show_zlist es ^ "," ^ show_bool it ^ "," ^ show_bool f ^ "]"
    | _ -> failwith "run_obs: arity");
  reg "combine_obs" (function
    | [tab; comps; k] ->
      let cs = L.map (function L [s; r] -> (acts_of s, acts_of r) | _ -> failwith "comp") (lv comps) in
      let ((ses, sf), (es, fs)) = combine_obs (tab_of tab) cs (natv k) in
      "ok [[" ^ show_zlist ses ^ "," ^ show_bool sf ^ "],[" ^ show_zlist es ^ "," ^ show_bools fs ^ "]]"
    | _ -> failwith "combine_obs: arity")
let () = section register_c06

(* ---- C16 *)
let str_pair = function L [a; b] -> (zlist a, zlist b) | _ -> failwith "strpair"
let mout_of z = match z_to_int z with 0 -> MSucc | 1 -> MFail | _ -> MDrop
let run_of = function
  | L [name; sf; outs] -> ((zlist name, bv sf), L.map mout_of (zlist outs))
  | _ -> failwith "run"
let show_series l =
  show_list (fun (ps, n) -> "[" ^ show_list (fun (a, b) -> "[" ^ show_zlist a ^ "," ^ show_zlist b ^ "]") ps ^ "," ^ z_to_string n ^ "]") l
let register_c16 reg =
  reg "gather_obs" (function
    | [labels; enabled; runs] ->
      let (s, i) = gather_obs (L.map str_pair (lv labels)) (bv enabled) (L.map run_of (lv runs)) in
      "ok [" ^ show_series s ^ "," ^ show_series i ^ "]"
    | _ -> failwith "gather_obs: arity")
let () = section register_c16

(* ---- C14 / C15 *)
let strv v = zlist v
let show_opt_z = function Some z -> "ok " ^ z_to_string z | None -> "err"
let optv f = function L [] -> None | L [x] -> Some (f x) | _ -> failwith "opt"
let show_rates r = "[" ^ z_to_string r.r_interval ^ "," ^ z_to_string r.r_total ^ "]"
let stage_cfg_of = function
  | L [mode; sr; er; rate; dist; w; stg; conc; jit; vol; dur; freq; rep; peak; sd; params] ->
    { sc_mode = optv strv mode; sc_start_rate = optv strv sr; sc_end_rate = optv strv er; sc_rate = optv strv rate;
      sc_distribution = optv strv dist; sc_weights = optv bv w; sc_stages = optv strv stg;
      sc_concurrency = optv zv conc; sc_jitter = optv zv jit; sc_volume = optv zv vol;
      sc_duration = optv zv dur; sc_iter_freq = optv zv freq; sc_repeat = optv zv rep; sc_peak = optv zv peak;
      sc_stddev = optv zv sd; sc_params = optv (fun p -> L.map str_pair (lv p)) params }
  | _ -> failwith "stage_cfg"
let config_of = function
  | L [scen; def; L [md; conc; mi; mf; mfr; ign]; start; stages] ->
    { c_scenario = optv strv scen; c_default = stage_cfg_of def;
      c_limits = { l_max_duration = optv zv md; l_concurrency = optv zv conc; l_max_iterations = optv zv mi;
                   l_max_failures = optv zv mf; l_max_failures_rate = optv zv mfr; l_ignore_dropped = optv bv ign };
      c_stage_start = optv zv start; c_stages = L.map stage_cfg_of (lv stages) }
  | _ -> failwith "config"
let show_pairs ps = show_list (fun (a, b) -> "[" ^ show_zlist a ^ "," ^ show_zlist b ^ "]") ps
let show_rstage s =
  "[" ^ z_to_string s.rs_duration ^ "," ^ z_to_string s.rs_interval ^ "," ^ z_to_string s.rs_users ^ "," ^ show_pairs s.rs_params ^ "]"
let show_plan p =
  "[" ^ S.concat "," [show_zlist p.p_scenario; show_list show_rstage p.p_stages; z_to_string p.p_total; z_to_string p.p_max_duration;
                      z_to_string p.p_concurrency; z_to_string p.p_max_iterations; z_to_string p.p_max_failures;
                      z_to_string p.p_max_failures_rate; show_bool p.p_ignore_dropped] ^ "]"
let register_c14 reg =
  reg "go_parse_duration" (function [s] -> show_opt_z (parse_duration (strv s)) | _ -> failwith "arity");
  reg "go_atoi" (function [s] -> show_opt_z (atoi (strv s)) | _ -> failwith "arity");
  reg "go_trim_space" (function [s] -> show_zlist (trim_space (strv s)) | _ -> failwith "arity");
  reg "parse_rate" (function [s] -> show_res (fun (n, u) -> "[" ^ z_to_string n ^ "," ^ z_to_string u ^ "]") (parse_rate (strv s)) | _ -> failwith "arity");
  reg "parse_rate_pinned" (function [s] -> show_res (fun (n, u) -> "[" ^ z_to_string n ^ "," ^ z_to_string u ^ "]") (parse_rate_pinned (strv s)) | _ -> failwith "arity");
  reg "parse_stages" (function [s] -> show_res (show_list (fun (d, t) -> "[" ^ z_to_string d ^ "," ^ z_to_string t ^ "]")) (parse_stages (strv s)) | _ -> failwith "arity");
  reg "calc_constant" (function [r; d] -> show_res show_rates (calc_constant (strv r) (strv d)) | _ -> failwith "arity");
  reg "calc_ramp" (function [a; b; d; dur] -> show_res show_rates (calc_ramp (strv a) (strv b) (strv d) (zv dur)) | _ -> failwith "arity");
  reg "calc_staged" (function [f; s; d] -> show_res show_rates (calc_staged (zv f) (strv s) (strv d)) | _ -> failwith "arity");
  reg "calc_gaussian" (function [f; sd; w; d] -> show_res show_rates (calc_gaussian (zv f) (zv sd) (bv w) (strv d)) | _ -> failwith "arity");
  reg "parse_config" (function [c; now] -> show_res show_plan (parse_config (config_of c) (zv now)) | _ -> failwith "arity");
  reg "config_jitter_ok" (function [c; now; obs] -> show_bool (config_jitter_ok (config_of c) (zv now) (zlist obs)) | _ -> failwith "arity");
  reg "fuzz_crashes" (function [n] -> show_bool (z_to_int (zv n) = 0) | _ -> failwith "arity")
let () = section register_c14
let register_c15 reg =
  reg "c15_run_ok" (function [a; b; c; d; e] -> show_bool (c15_run_ok (zv a) (zv b) (zv c) (zv d) (zv e)) | _ -> failwith "arity");
  reg "c15_trigger_ok" (function [d; t; k] -> show_bool (c15_trigger_ok (zlist d) (zv t) (zv k)) | _ -> failwith "arity")
let () = section register_c15

(* ---- C19 *)
let dsnap_of = function L [a; c; mn; mx] -> { ds_avg = zv a; ds_cnt = zv c; ds_min = zv mn; ds_max = zv mx } | _ -> failwith "dsnap"
let progress_of snap dur succ drop fail period =
  { pd_period_stats = dsnap_of snap; pd_duration = zv dur; pd_succ = zv succ; pd_drop = zv drop; pd_fail = zv fail; pd_period = zv period }
let result_of e lf ss fs started dur succ iters fail drop failed =
  { rd_error = optv strv e; rd_logfile = strv lf; rd_succ_stats = dsnap_of ss; rd_fail_stats = dsnap_of fs;
    rd_started = zv started; rd_duration = zv dur; rd_succ = zv succ; rd_iterations = zv iters; rd_fail = zv fail;
    rd_drop = zv drop; rd_failed = bv failed }
let register_c19 reg =
  reg "render_progress" (function
    | [on; snap; dur; succ; drop; fail; period] -> "ok " ^ show_zlist (render_progress (bv on) (progress_of snap dur succ drop fail period))
    | _ -> failwith "arity");
  reg "log_progress" (function
    | [snap; dur; succ; drop; fail; period] ->
      "[" ^ show_zlist (s_of_ocaml "progress") ^ "," ^ show_zlist (log_progress (progress_of snap dur succ drop fail period)) ^ "]"
    | _ -> failwith "arity");
  reg "render_result" (function
    | [on; e; lf; ss; fs; started; dur; succ; iters; fail; drop; failed] ->
      "ok " ^ show_zlist (render_result (bv on) (result_of e lf ss fs started dur succ iters fail drop failed))
    | _ -> failwith "arity");
  reg "log_result" (function
    | [e; lf; ss; fs; started; dur; succ; iters; fail; drop; failed] ->
      let ((f, he), st) = log_result (result_of e lf ss fs started dur succ iters fail drop failed) in
      "[" ^ show_bool f ^ "," ^ show_bool he ^ "," ^ show_zlist st ^ "]"
    | _ -> failwith "arity");
  reg "render_exit" (function [on; k; d] -> "ok " ^ show_zlist (render_exit (bv on) (zv k) (zv d)) | _ -> failwith "arity");
  reg "render_stage" (function [on; td; e] -> "ok " ^ show_zlist (render_stage (bv on) (bv td) (optv strv e)) | _ -> failwith "arity");
  reg "summary_glue" (function
    | [e; lf; ss; fs; ps; succ; fail; drop; ign; mf; mr; period] ->
      (* Result.Summary()/Progress(): the verdict of C08 feeds the banner; duration() is 0 before RecordStarted *)
      let nerrs = match e with L [] -> Z0 | _ -> z_of_int 1 in
      let failed = match failed_verdict nerrs (zv succ) (zv fail) (zv drop) { ign = bv ign; mf = zv mf; mr = zv mr } with
        | Ok b -> b | _ -> failwith "verdict" in
      let iters = Z.add (Z.add (zv fail) (zv succ)) (zv drop) in
      let started = Z.add (zv succ) (zv fail) in
      let r = { rd_error = optv strv e; rd_logfile = strv lf; rd_succ_stats = dsnap_of ss; rd_fail_stats = dsnap_of fs;
                rd_started = started; rd_duration = Z0; rd_succ = zv succ; rd_iterations = iters; rd_fail = zv fail;
                rd_drop = zv drop; rd_failed = failed } in
      let p = { pd_period_stats = dsnap_of ps; pd_duration = Z0; pd_succ = zv succ; pd_drop = zv drop; pd_fail = zv fail; pd_period = zv period } in
      "ok [" ^ show_zlist (render_result false r) ^ "," ^ show_zlist (render_progress false p) ^ "]"
    | _ -> failwith "arity")
let () = section register_c19

(* ---- C11 *)
let register_c11 reg =
  reg "gauss" (function
    | [vol; freq; ws; hi; lo; rep; table; ticks] ->
      (match gauss_run (zv vol) (zv freq) (zlist ws) (zv hi) (zv lo) (zv rep) (L.map zpair (lv table)) (zlist ticks) with
       | Some outs -> "ok " ^ show_zlist outs
       | None -> "DRIVER-ERROR slot not in the oracle table")
    | _ -> failwith "arity");
  reg "gauss_ok" (function
    | [outs; p; e; tol] -> show_bool (gauss_ok (zlist outs) (natv p) (zv e) (zv tol))
    | _ -> failwith "arity")
let () = section register_c11

(* ---- C18 *)
let vev_of = function
  | L [I t] -> (match z_to_int t with 0 -> VStart | 2 -> VFnEnd | 3 -> VRestart | 4 -> VStopCalled | 5 -> VStopReturned | 6 -> VCancel | 7 -> VFirst | 8 -> VNext | _ -> failwith "vev")
  | L [I t; k] when z_to_int t = 1 -> VFnStart (zv k)
  | _ -> failwith "vev"
let register_c18 reg =
  reg "runner_trace_ok" (function [n; tr] -> show_bool (runner_trace_ok (zv n) (L.map vev_of (lv tr))) | _ -> failwith "arity");
  reg "runner_times_ok" (function [d; f; rs; st] ->
    show_bool (runner_times_ok (zlist d) (zlist f) (zlist rs) (L.map (fun p -> match zlist p with [k; t] -> (k, t) | _ -> failwith "pair") (lv st)))
    | _ -> failwith "arity");
  reg "runner_timed_ok" (function [d; f; evs] ->
    show_bool (runner_timed_ok (zlist d) (zlist f) (L.map (fun p -> match zlist p with [c; k; t] -> ((c, k), t) | _ -> failwith "triple") (lv evs)))
    | _ -> failwith "arity")
let () = section register_c18

(* ---- C02 / C03 / C04 *)
let register_pool reg =
  reg "c02_ok" (function [r; s; d; l; m] -> show_bool (c02_ok (zv r) (zv s) (zv d) (bv l) (zv m)) | _ -> failwith "arity");
  reg "c03_ok" (function [ids; lim; e] -> show_bool (c03_ok (zlist ids) (zv lim) (bv e)) | _ -> failwith "arity");
  reg "c04_ok" (function [h; c; sh; rv] -> show_bool (c04_ok (zv h) (zv c) (bv sh) (bv rv)) | _ -> failwith "arity")
let () = section register_pool

(* ---- C09 *)
let register_c09 reg =
  reg "stage_count_ok" (function
    | [k; iv; dur; got; slack] -> show_bool (stage_count_ok (zv k) (zv iv) (zv dur) (zv got) (zv slack))
    | _ -> failwith "arity");
  reg "c09_ok" (function
    | [iv; times; values; st; dr; ex; late] -> show_bool (c09_ok (zv iv) (zlist times) (zlist values) (zv st) (zv dr) (bv ex) (zv late))
    | _ -> failwith "arity")
let () = section register_c09

(* ---- C05 *)
let register_c05 reg =
  reg "window_ok" (function [a; b; c; d] -> show_bool (window_ok (zv a) (zv b) (zv c) (zv d)) | _ -> failwith "arity");
  reg "c05_ok" (function (a :: b :: c :: d :: e :: _) -> show_bool (c05_ok (zv a) (zv b) (zv c) (zv d) (zv e)) | _ -> failwith "arity")
let () = section register_c05
