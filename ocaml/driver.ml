(* Reads case lines "cmd value ..." on stdin, prints the model's answer for
   each on stdout, one line per case, in the same canonical syntax the Go
   harness uses for the implementation's answer. *)
module S = Stdlib.String
module L = Stdlib.List
module A = Stdlib.Array
module H = Stdlib.Hashtbl
module B = Stdlib.Buffer
module C = Stdlib.Char
type ostring = string
open Model
open Vparse

let handlers : (ostring, v list -> ostring) H.t = H.create 64
let reg name f = H.replace handlers name f

let vopts ign mf mr = { ign = bv ign; mf = zv mf; mr = zv mr }

let () =
  (* C08 *)
  reg "verdict" (function
    | [nerrs; s; f; d; ign; mf; mr] ->
      show_res show_bool (failed_verdict (zv nerrs) (zv s) (zv f) (zv d) (vopts ign mf mr))
    | _ -> failwith "verdict: arity");
  reg "verdict_pinned" (function
    | [nerrs; s; f; d; ign; mf; mr] ->
      show_res show_bool (failed_verdict_pinned (zv nerrs) (zv s) (zv f) (zv d) (vopts ign mf mr))
    | _ -> failwith "verdict_pinned: arity");
  reg "cli" (function
    | [nerrs; s; f; d; ign; mf; mr] ->
      show_res show_bool (cli_returns_error (zv nerrs) (zv s) (zv f) (zv d) (vopts ign mf mr))
    | _ -> failwith "cli: arity");
  reg "verdict_spec" (function
    | [nerrs; s; f; d; ign; mf; mr] ->
      show_bool (verdict_spec_b (zv nerrs) (zv s) (zv f) (zv d) (vopts ign mf mr))
    | _ -> failwith "verdict_spec: arity")

let () = L.iter (fun f -> f reg) !Handlers.all

let () =
  try
    while true do
      let line = input_line stdin in
      let line = S.trim line in
      if line = "" || line.[0] = '#' then print_endline line
      else begin
        let toks = L.filter (fun s -> s <> "") (S.split_on_char ' ' line) in
        match toks with
        | [] -> print_endline ""
        | cmd :: args ->
          let out =
            try
              let h = try H.find handlers cmd with Not_found -> failwith ("unknown cmd " ^ cmd) in
              h (L.map parse_value args)
            with
            | Failure m -> "DRIVER-ERROR " ^ m
            | Stack_overflow -> "DRIVER-ERROR stack overflow"
          in
          print_endline out
      end
    done
  with End_of_file -> ()
